"""C01 -- a configuration is accepted iff it conforms to the schema.

Decides (necessary conditions of the 'only if' direction): each rejection rule
of the matcher is present, correctly oriented and ordered before the effect it
protects -- the name rule table, the occurrence-bound comparisons, the
slot-filling typestate of addValue/addSection, the three-way slot search, the
type gate of startSection/createChildMatcher, and that every datatype call is
wrapped into a DataConversionError.
Does not decide the 'if' direction (that conforming texts are accepted), nor
interactions that depend on concrete schemas.
"""
import ast

from zcstatic.report import AnalysisError

from rules.common import crosscheck
from zcstatic.excflow import DATATYPE_SLOTS
from zcstatic.model import src, walk_shallow

INF = "ZConfig.info"
MT = "ZConfig.matcher"
REF = "ref_matcher.py"

# reasoned exception to R6, keyed by construct
R6_EXCEPTIONS = {
    # keyed by function and the slot expression called (not its argument)
    ("ZConfig.matcher.SchemaMatcher.finish", "self.type.datatype"):
        "no enclosing container exists; a ValueError of the schema-level "
        "datatype is an error raised by a datatype function itself (C07)",
}


def run(ctx):
    run, m, P = ctx.run, ctx.model, ctx.program
    run.explanation = (
        "Decides the rejection rules of the matcher as decision tables "
        "(per loop iteration) cross-checked valuation by valuation against a "
        "parsed reference: section-name rule, occurrence bounds (three-way "
        "ordering atoms make < vs <= distinct), slot-filling typestate, "
        "three-way slot search with its fall-through raise, type gate; plus "
        "the structural rule that every call through a datatype slot in the "
        "matcher/info modules sits in a try whose ValueError handler raises "
        "DataConversionError.  Does not decide the 'if' direction of the "
        "property nor schema-dependent interactions.")
    run.rule("C01.R1", "section-name rule table == reference", floor=3)
    run.rule("C01.R2", "occurrence bounds: orientation of every comparison "
             "== reference", floor=4)
    run.rule("C01.R3", "slot filling: addValue / addSection typestate == "
             "reference", floor=2)
    run.rule("C01.R4", "slot search is three-way and total == reference",
             floor=1)
    run.rule("C01.R5", "type gate: unknown/abstract types refused before a "
             "child matcher is created", floor=3)
    run.rule("C01.R7", "the implementer table is filled under 'implements' "
             "only; the parser gives the matcher the same normalised type "
             "and name at both ends of a section", floor=5)
    run.rule("C01.R6", "every datatype-slot call in matcher.py / info.py is "
             "wrapped: ValueError -> DataConversionError", floor=4)
    run.rule("C01.R8", "'the schema' of the statement: a schema loader "
             "returns the schema parsed from the resource it was given (a "
             "cache hit only under that resource's own, non-empty URL), and "
             "the default key type under which keys are declared and matched "
             "accepts exactly the documented basic-key language (borrowed "
             "from C13.R4 / C09.R1)", floor=3)

    SI = INF + ".SectionInfo"
    crosscheck(ctx, "C01.R1", SI + ".isAllowedName", REF, "isAllowedName", SI,
               "fixed / * / + name rule")
    crosscheck(ctx, "C01.R1", SI + ".allowUnnamed", REF, "allowUnnamed", SI,
               "unnamed allowed iff slot name is *")
    crosscheck(ctx, "C01.R1", MT + ".SectionMatcher.__init__", REF,
               "sectionmatcher_init", MT + ".SectionMatcher",
               "unnamed section refused unless allowed")
    # SchemaType overrides
    st = m.cls(INF + ".SchemaType")
    for name, want in (("allowUnnamed", "True"), ("isAllowedName", "False")):
        f = st.methods.get(name)
        ok = f is not None and len(f.node.body) == 1 and isinstance(
            f.node.body[0], ast.Return) and src(f.node.body[0].value) == want
        run.check(ok, "C01.R1", INF + ".SchemaType." + name, "constant " +
                  want, "the schema itself is unnamed and admits no name",
                  "SchemaType.%s no longer returns %s" % (name, want),
                  nontrivial=False)

    crosscheck(ctx, "C01.R2", INF + ".BaseInfo.__init__", REF,
               "baseinfo_init", INF + ".BaseInfo", "max >= 1, min <= max")
    crosscheck(ctx, "C01.R2", INF + ".BaseInfo.ismulti", REF, "ismulti",
               INF + ".BaseInfo", "multi iff max > 1")
    crosscheck(ctx, "C01.R2", SI + ".__init__", REF, "sectioninfo_init", SI,
               "multi sections need * or + and an attribute")
    crosscheck(ctx, "C01.R2", SI + ".getdefault", REF,
               "sectioninfo_getdefault", SI, "[] iff multi")
    crosscheck(ctx, "C01.R2", MT + ".BaseMatcher.finish", REF, "finish",
               MT + ".BaseMatcher", "required / minimum checks at the closer")

    from rules.common import raw_param_uses
    av = m.fn(MT + ".BaseMatcher.addValue")
    raw = raw_param_uses(P, av, 0)
    if raw:
        run.fail("C01.R3", av.qualname, "key as written",
                 "the key as written (before key-type normalisation) is "
                 "consulted: %s -- two spellings of one key are not "
                 "recognised as the same key" % "; ".join(raw),
                 loc=m.loc(av, av.node), witness={"uses": raw})
    else:
        crosscheck(ctx, "C01.R3", MT + ".BaseMatcher.addValue", REF,
                   "addValue", MT + ".BaseMatcher",
                   "key search, single-value guard, store")
    from rules.common import crosscheck_many
    crosscheck_many(ctx, "C01.R2", [
        (INF + ".UnboundedThing.__gt__", "unbounded_gt",
         INF + ".UnboundedThing", "Unbounded exceeds every number"),
        (INF + ".UnboundedThing.__eq__", "unbounded_eq",
         INF + ".UnboundedThing", "Unbounded equals only itself"),
        (INF + ".KeyInfo.__init__", "keyinfo_init", INF + ".KeyInfo",
         "a key is single-valued (maxOccurs 1)"),
        (INF + ".MultiKeyInfo.__init__", "multikeyinfo_init",
         INF + ".MultiKeyInfo", "a multikey keeps its bounds"),
        (INF + ".BaseKeyInfo.__init__", "basekeyinfo_init",
         INF + ".BaseKeyInfo", "bounds passed to BaseInfo"),
        (INF + ".BaseInfo.issection", "const_false", INF + ".BaseInfo",
         "keys are not sections"),
        (INF + ".SectionInfo.issection", "const_true", INF + ".SectionInfo",
         "section slots are sections"),
        (INF + ".SchemaType.issection", "const_true", INF + ".SchemaType",
         "the schema is a section"),
        (INF + ".BaseInfo.isabstract", "const_false", INF + ".BaseInfo",
         "infos are concrete"),
        (INF + ".SectionType.isabstract", "const_false",
         INF + ".SectionType", "section types are concrete"),
        (INF + ".AbstractType.isabstract", "const_true",
         INF + ".AbstractType", "abstract types are abstract"),
        (INF + ".SectionType.__len__", "sectiontype_len",
         INF + ".SectionType", "children count"),
        (INF + ".SectionType.__getitem__", "sectiontype_getitem",
         INF + ".SectionType", "children by index"),
        (INF + ".SectionType.__iter__", "sectiontype_iter",
         INF + ".SectionType", "children in schema order"),
        (INF + ".SectionType.getinfo", "getinfo", INF + ".SectionType",
         "unknown key refused"),
    ])
    crosscheck(ctx, "C01.R3", MT + ".BaseMatcher.addSection", REF,
               "addSection", MT + ".BaseMatcher",
               "name reuse refused before registration and slot search")

    inv = _children_invariant(ctx)
    crosscheck(ctx, "C01.R4", INF + ".SectionType.getsectioninfo", REF,
               "getsectioninfo", INF + ".SectionType",
               "by key / by type / by implemented abstract type; else raise",
               live_kw={"rewrite": inv}, ref_kw={"rewrite": inv})

    crosscheck(ctx, "C01.R5", "ZConfig.loader.ConfigLoader.startSection",
               "ref_loader.py", "startSection", "ZConfig.loader.ConfigLoader",
               "schema-wide type lookup, abstract refused")
    crosscheck(ctx, "C01.R5", MT + ".BaseMatcher.createChildMatcher", REF,
               "createChildMatcher", MT + ".BaseMatcher",
               "slot found, name allowed, then child matcher")
    crosscheck(ctx, "C01.R5", INF + ".SectionType.gettype", REF, "gettype",
               INF + ".SectionType", "unknown type -> error")
    crosscheck(ctx, "C01.R5", INF + ".AbstractType.getsubtype", REF,
               "getsubtype", INF + ".AbstractType",
               "non-implementer -> error")
    crosscheck(ctx, "C01.R5", "ZConfig.loader.ConfigLoader.endSection",
               "ref_loader.py", "endSection", "ZConfig.loader.ConfigLoader",
               "finish the child, then register it with the parent")

    # R7: what the matcher's rules are applied to.  The implementer table
    # an abstract slot consults is filled only under `implements` (a type
    # that merely extends an implementer is not one); and the parser hands
    # the matcher the same normalised type and name when a section is opened
    # and when it is closed, in both spellings of an empty section
    BPq = "ZConfig.schema.BaseParser"
    crosscheck(ctx, "C01.R7", BPq + ".start_sectiontype", "ref_schema.py",
               "start_sectiontype", BPq,
               "implementers are registered under 'implements' only")
    crosscheck(ctx, "C01.R7", INF + ".AbstractType.addsubtype", "ref_info.py",
               "addsubtype", INF + ".AbstractType", "keyed by the type name")
    crosscheck(ctx, "C01.R7", INF + ".SchemaType.deriveSectionType",
               "ref_info.py", "deriveSectionType", INF + ".SchemaType",
               "deriving a type registers no implementer")
    # the key type under which a section type's names are declared and its
    # keys are matched: the type's own attribute, else its base's, else
    # basic-key -- never the enclosing schema's
    crosscheck(ctx, "C01.R7", BPq + ".get_sect_typeinfo", "ref_schema.py",
               "get_sect_typeinfo", BPq,
               "key type of a section type: own > base > basic-key")
    # R8: conformance is judged against the schema the caller loaded, and
    # keys are normalised by the key type the schema declares -- basic-key
    # where it declares none
    crosscheck(ctx, "C01.R8", "ZConfig.loader.SchemaLoader.loadResource",
               "ref_info.py", "schemaloader_loadResource",
               "ZConfig.loader.SchemaLoader",
               "the schema parsed from this resource; cached under its own "
               "non-empty URL only")
    from rules import c09
    c09.pattern_rule(ctx, "C01.R8", only={"basic-key"})
    # (the converter itself: nothing but the pattern check and lower())
    from zcstatic import crosscheck as _X
    _fn = m.lookup_method("ZConfig.datatypes.BasicKeyConversion", "__call__")
    if _fn is None:
        raise AnalysisError("anchor vanished: BasicKeyConversion.__call__")
    _r = _X.compare(P, _fn, _X.spec_function(m, "ref_datatypes.py",
                                             "basic_key_call",
                                             as_method=True))
    from rules.common import verdict as _verdict
    _verdict(run, "C01.R8", _fn, "basic-key: pattern check, then lower()",
             _r, m)
    PCq = "ZConfig.cfgparser.ZConfigParser"
    for live, ref, what in (
            ("start_section", "start_section", "type and name are "
             "normalised once and used for the opener, the stack entry and "
             "the empty form's closer alike"),
            ("end_section", "end_section", "the closer's type is normalised "
             "and compared with the open one"),
            ("_normalize_case", "normalize_case", "lower-casing")):
        lf = m.lookup_method(PCq, live)
        if lf is None:
            run.soft_error("anchor vanished: %s.%s" % (PCq, live))
            continue
        crosscheck(ctx, "C01.R7", lf.qualname, "ref_cfgparser.py", ref, PCq,
                   what)

    # R6
    for fi in m.functions.values():
        if fi.module.name not in (MT, INF):
            continue
        for n in walk_shallow(fi.node):
            if not isinstance(n, ast.Call):
                continue
            nm = n.func.attr if isinstance(n.func, ast.Attribute) else (
                n.func.id if isinstance(n.func, ast.Name) else None)
            if nm not in DATATYPE_SLOTS:
                continue
            cs = P.resolve_call(fi, n)
            if any(c.kind == "repo" and c.how in ("cha", "byname", "basecall")
                   for c in cs):
                continue   # a method of that name, not a slot
            key = (fi.qualname, src(n.func))
            if key in R6_EXCEPTIONS:
                run.ok("C01.R6", fi.qualname, src(n),
                       "reasoned exception: " + R6_EXCEPTIONS[key],
                       loc=m.loc(fi, n), nontrivial=False)
                continue
            ok = False
            p = n
            while p is not None and p is not fi.node:
                par = getattr(p, "_parent", None)
                if isinstance(par, ast.Try) and p in par.body:
                    for h in par.handlers:
                        ht = m.resolve(fi.module, h.type) if h.type is not \
                            None else None
                        if ht == "builtins.ValueError" and any(
                                isinstance(x, ast.Raise) and isinstance(
                                    x.exc, ast.Call) and m.is_subclass(
                                    m.resolve(fi.module, x.exc.func) or "",
                                    "ZConfig.ConfigurationError")
                                for x in h.body):
                            ok = True
                p = par
            run.check(ok, "C01.R6", fi.qualname, src(n),
                      "inside a try whose ValueError handler raises a "
                      "configuration error (DataConversionError, or "
                      "SchemaError for schema-time conversions)",
                      "the datatype call %s is not wrapped: a ValueError of "
                      "the datatype would escape as a bare ValueError"
                      % src(n), loc=m.loc(fi, n))


def _children_invariant(ctx):
    """Data-structure invariant of SectionType._children, *checked* here and
    then used as a term rewrite by the slot-search comparison: an entry
    (key, info) with a key has info.name == key.  Entries are appended by
    _add_child(key, info) only; addkey passes (keyinfo.name, keyinfo);
    addsection passes (name, sectinfo) and every caller of addsection passes
    a SectionInfo constructed with that same name as its first argument (no
    re-binding in between).  With it, `info.name` of a child entry *is* the
    entry's key, so a test written on one is a test on the other."""
    run, m, P, F = ctx.run, ctx.model, ctx.program, ctx.flow
    ST = INF + ".SectionType"
    ok, why = True, []
    addchild = m.lookup_method(ST, "_add_child")
    if addchild is None:
        return None
    appends = [n for k in m.mro(ST) if k in m.classes
               for fn in m.classes[k].methods.values()
               for n in ast.walk(fn.node)
               if isinstance(n, ast.Call) and isinstance(
                   n.func, ast.Attribute) and n.func.attr in (
                       "append", "insert", "extend")
               and src(n.func.value).endswith("._children")
               and fn is not addchild and fn.name not in (
                   "deriveSectionType",)]
    if appends:
        ok = False
        why.append("_children is also extended outside _add_child: %s"
                   % [src(a)[:50] for a in appends])
    for caller, call, c in F.callers(addchild):
        a = call.args
        if len(a) != 2:
            ok = False
            why.append("%s: %s" % (caller.qualname, src(call)))
            continue
        k, i = a
        if isinstance(k, ast.Attribute) and k.attr == "name" \
                and src(k.value) == src(i):
            continue                      # (info.name, info)
        if isinstance(k, ast.Name) and isinstance(i, ast.Name) \
                and caller.params[1:3] == [k.id, i.id]:
            # (name, sectinfo) handed through: look at the callers
            for c2, call2, _ in F.callers(caller):
                b = call2.args
                good = False
                if len(b) == 2 and isinstance(b[0], ast.Name) \
                        and isinstance(b[1], ast.Name):
                    binds = [v for v, how in F._assignments(c2, b[1].id)
                             if how == "plain"]
                    nb = [v for v, how in F._assignments(c2, b[0].id)]
                    def first_is_key(a0):
                        # SectionInfo(name, ...) or SectionInfo(any_name or
                        # name, ...): get_name_info returns the wildcard
                        # marker only together with the key None (its
                        # decision table is compared in C02.R5), so for an
                        # entry that has a key the first argument is the key
                        if isinstance(a0, ast.Name):
                            return a0.id == b[0].id
                        return isinstance(a0, ast.BoolOp) and isinstance(
                            a0.op, ast.Or) and isinstance(
                                a0.values[-1], ast.Name) \
                            and a0.values[-1].id == b[0].id
                    good = len(binds) == 1 and isinstance(
                        binds[0], ast.Call) and binds[0].args \
                        and first_is_key(binds[0].args[0]) \
                        and (m.resolve(c2.module, binds[0].func) or ""
                             ).endswith("Info")
                    # the name is bound before the info is built and not
                    # after it
                    if good:
                        line_info = binds[0].lineno
                        good = all(getattr(v, "lineno", 0) <= line_info
                                   for v in nb)
                if not good:
                    ok = False
                    why.append("%s: %s" % (c2.qualname, src(call2)))
            continue
        ok = False
        why.append("%s: %s" % (caller.qualname, src(call)))
    if not ok:
        # the lemma is an aid of the comparison, not a clause of the
        # property: where this (syntactic) argument does not go through, the
        # comparison simply runs without it
        run.note("C01.R4: the invariant 'a child's key is its info's name' "
                 "could not be established (%s); the slot-search comparison "
                 "runs without it" % why)
        return None
    run.ok("C01.R4", ST + "._children", "entry (key, info): info.name == key",
           "every entry is appended by _add_child with the info's own name "
           "as key (addkey: keyinfo.name; addsection: the name the "
           "SectionInfo was constructed with)")

    def rewrite(t):
        # (<element of self._children>[1]).name  ->  <element>[0]
        if t[0] == "attr" and t[2] == "name" and t[1][0] == "index" \
                and t[1][2] == ("const", 1) and t[1][1][0] in (
                    "elem", "elem2") and t[1][1][1] == (
                        "attr", ("self",), "_children"):
            return ("index", t[1][1], ("const", 0))
        return t
    return rewrite
