"""C14 -- command-line overrides act like editing the addressed keys.

Decides: specifier validation precedes recording; the overriding matcher
normalises keys exactly like the base matcher and suppresses exactly the
overridden keys; override values are injected through the base path, in stored
order, before the section is finished, and leftovers are refused; override
values never reach substitution; consumed path items are removed; position
order at the hand-off; the extended loader is selected iff overrides are given.
Does not decide equality with the hand-edited text.
"""
import ast

from zcstatic.report import AnalysisError

from rules.common import crosscheck
from zcstatic import absint as A
from zcstatic import crosscheck as X
from zcstatic.model import src, walk_shallow

CM = "ZConfig.cmdline"
MT = "ZConfig.matcher"
REF = "ref_matcher.py"


def run(ctx):
    run, m, P = ctx.run, ctx.model, ctx.program
    run.explanation = (
        "Decides the override machinery's decision tables (cross-checked "
        "valuation by valuation against a parsed reference, per loop "
        "iteration): specifier syntax, key normalisation and suppression in "
        "the overriding matcher (sibling agreement with the base matcher), "
        "injection through the base addValue in stored order before the base "
        "finish, refusal of leftovers, path-item selection and consumption; "
        "plus the who-may-call rule that only the configuration parser calls "
        "$-substitution (override values are never expanded).  Does not "
        "decide equality with the hand-edited text.")
    run.rule("C14.R1", "addOption: no '=' or empty path component raises "
             "before anything is recorded; split at the first '='; path split "
             "on '/'", floor=1)
    run.rule("C14.R2", "MatcherMixin.addValue == reference and applies the "
             "same key-type wrapper as BaseMatcher.addValue", floor=2)
    run.rule("C14.R3", "pending values injected via the base addValue, in "
             "order, before the base finish; leftovers refused", floor=4)
    run.rule("C14.R4", "override values never reach $-substitution")
    run.rule("C14.R5", "section path items: matched by lower-cased name or "
             "basic-key type, consumed in place, tail handed down", floor=3)
    run.rule("C14.R6", "option bag construction wraps key-type errors; "
             "positions reordered at the hand-off", floor=2)
    run.rule("C14.R7", "extended loader iff overrides; extended child "
             "matcher keeps name rules and the handler list", floor=3)
    run.rule("C14.R9", "a line for an overridden key is dropped, not judged: "
             "nothing the parser does with a key/value line before handing "
             "it to the section (where the override test is made) can reject "
             "the load, apart from the test that it is a key/value line")
    run.rule("C14.R8", "the section type an override path descends into is "
             "the one the loader resolved against its current schema: no "
             "load-phase lookup in the schema's type table / component "
             "registry goes through a snapshot taken before a %import "
             "replaced the loader's schema (shared with C12.R8)", floor=3)

    EL = CM + ".ExtendedConfigLoader"
    OB = CM + ".OptionBag"
    MM = CM + ".MatcherMixin"
    crosscheck(ctx, "C14.R1", EL + ".addOption", REF, "addOption", EL,
               "specifier syntax")
    crosscheck(ctx, "C14.R2", MM + ".addValue", REF, "mixin_addValue", MM,
               "suppress iff normalised key is overridden; else delegate "
               "unchanged")
    # sibling agreement: both addValue implementations convert the key the
    # same way (the key type applied to the key as written, a ValueError
    # wrapped into DataConversionError(e, key, position)).  Decided
    # semantically: each live function equals its reference (the mixin's
    # above, the base matcher's here), and the two *references* begin with
    # the identical wrapper (compared as syntax trees of /verif/spec, which
    # no change to the repository can affect).
    mix = m.fn(MM + ".addValue")
    crosscheck(ctx, "C14.R2", MT + ".BaseMatcher.addValue", REF, "addValue",
               MT + ".BaseMatcher", "the base matcher's key-type wrapper")

    def head(fn):
        import copy
        for st in fn.node.body:
            if isinstance(st, ast.Try):
                st = copy.deepcopy(st)
                for h in st.handlers:
                    if h.name:
                        for n in ast.walk(h):
                            if isinstance(n, ast.Name) and n.id == h.name:
                                n.id = "<exc>"
                        h.name = "<exc>"
                return ast.dump(st, annotate_fields=False)
        return None
    rb = X.spec_function(m, REF, "addValue")
    rm = X.spec_function(m, REF, "mixin_addValue")
    if head(rb) is None or head(rb) != head(rm):
        raise AnalysisError("the references of BaseMatcher.addValue and "
                            "MatcherMixin.addValue no longer begin with the "
                            "same key-type wrapper (spec/ref_matcher.py)")
    run.ok("C14.R2", MM + ".addValue", "same key-type wrapper as the base "
           "matcher", "both implementations equal their references, which "
           "begin with the identical try: realkey = self.type.keytype(key) / "
           "except ValueError -> DataConversionError(e, key, position)",
           loc=m.loc(mix, mix.node))

    from rules.common import raw_param_uses
    bad = raw_param_uses(P, mix, 0, allow_call=lambda f: f.endswith(
        "BaseMatcher.addValue"))
    run.check(not bad, "C14.R2", MM + ".addValue", "raw key never consulted",
              "the key as written reaches only the key-type call, messages "
              "and the delegation to the base matcher",
              "the overriding matcher consults the key as written (before "
              "key-type normalisation): %s" % "; ".join(bad),
              loc=m.loc(mix, mix.node), witness={"uses": bad})
    crosscheck(ctx, "C14.R3", MM + ".finish_optionbag", REF,
               "finish_optionbag", MM,
               "feed every pending value to BaseMatcher.addValue; then "
               "OptionBag.finish")
    crosscheck(ctx, "C14.R3", CM + ".ExtendedSectionMatcher.finish", REF,
               "extsection_finish", CM + ".ExtendedSectionMatcher",
               "options first, then the base finish")
    crosscheck(ctx, "C14.R3", CM + ".ExtendedSchemaMatcher.finish", REF,
               "extschema_finish", CM + ".ExtendedSchemaMatcher",
               "options first, then the base finish")
    # override values are injected when the section is finished; what
    # finishing raises (a conversion error for an unconvertible override)
    # must pass through the parser as it is, for '<t/>' as for '</t>'
    PCq = "ZConfig.cfgparser.ZConfigParser"
    for live, ref, what in (
            ("_end_section", "finish_section", "section end: errors of "
             "finish() keep their class, only the position is filled in"),
            ("start_section", "start_section", "the empty form finishes "
             "the section through the same handlers"),
            ("end_section", "end_section", "closer")):
        lf = m.lookup_method(PCq, live)
        if lf is None:
            run.soft_error("anchor vanished: %s.%s" % (PCq, live))
            continue
        r = X.compare(P, lf, X.spec_method(P, "ref_cfgparser.py", ref, PCq))
        from rules.common import verdict
        verdict(run, "C14.R3", lf, what, r, m)
    crosscheck(ctx, "C14.R3", OB + ".finish", REF, "optionbag_finish", OB,
               "anything left -> ConfigurationError")
    crosscheck(ctx, "C14.R3", OB + ".get_key", REF, "get_key", OB,
               "values of a key are handed out once, in stored order")
    crosscheck(ctx, "C14.R3", OB + ".add_value", REF, "add_value", OB,
               "append in arrival order")
    crosscheck(ctx, "C14.R3", OB + ".__contains__", REF,
               "optionbag_contains", OB, "membership on pending keys")

    # R4: who may call substitution
    F = ctx.flow
    callers = set()
    for q in ("ZConfig.substitution.substitute",
              "ZConfig.cfgparser.ZConfigParser.replace"):
        for caller, call, callee in F.callers(m.fn(q)):
            callers.add(caller.module.name)
    run.check(callers <= {"ZConfig.cfgparser", "ZConfig.substitution"}
              and callers, "C14.R4", "ZConfig.substitution.substitute",
              "callers of substitute/replace",
              "only the configuration parser calls $-substitution (%s): "
              "override values, which never pass through the parser, are "
              "taken verbatim" % sorted(callers),
              "substitution is also called from %s"
              % sorted(callers - {"ZConfig.cfgparser",
                                  "ZConfig.substitution"}))

    virt = {}
    if m.lookup_method(OB, "_normalize_case") is None:
        # the private one-line helper has been inlined into its caller: the
        # reference is read with its own helper expanded as well
        virt = {"_normalize_case": X.spec_method(
            P, REF, "optionbag_normalize_case", OB)}
    crosscheck(ctx, "C14.R5", OB + ".get_section_info", REF,
               "get_section_info", OB, "select, consume, hand down the tail",
               ref_kw={"virtual": virt} if virt else None)
    crosscheck(ctx, "C14.R5", OB + ".basic_key", REF, "optionbag_basic_key",
               OB, "basic-key of a path component, error -> syntax error")
    if not virt:
        crosscheck(ctx, "C14.R5", OB + "._normalize_case", REF,
                   "optionbag_normalize_case", OB, "lower()")
    else:
        run.ok("C14.R5", OB, "_normalize_case",
               "the helper is inlined into get_section_info; compared there "
               "against the reference with its helper expanded",
               nontrivial=False)

    crosscheck(ctx, "C14.R6", OB + ".__init__", REF, "optionbag_init", OB,
               "key type applied under the DataConversionError wrapper; "
               "one-component paths are values, longer ones section items")
    from rules import c07
    before = len(run.obligations)
    c07._r2_positions(ctx)
    for o in run.obligations[before:]:
        o["rule"] = "C14.R6"
    for f in run.findings:
        if f.rule == "C07.R2":
            f.rule = "C14.R6"

    crosscheck(ctx, "C14.R7", "ZConfig.loader._get_config_loader", REF,
               "get_config_loader", None,
               "extended loader iff overrides; every specifier added in "
               "order")
    crosscheck(ctx, "C14.R7", EL + ".createSchemaMatcher", REF,
               "createSchemaMatcher", EL, "extended matcher iff options")
    crosscheck(ctx, "C14.R7", EL + ".cook", REF, "cook", EL,
               "bag over the schema with all recorded options")
    from rules.common import crosscheck_many
    crosscheck_many(ctx, "C14.R7", [
        (EL + ".__init__", "extloader_init", EL, "no options initially"),
        (MM + ".set_optionbag", "set_optionbag", MM, "bag attached"),
        (OB + ".keys", "optionbag_keys", OB, "pending keys"),
        ("ZConfig.loader.ConfigLoader.createSchemaMatcher",
         "configloader_createSchemaMatcher", "ZConfig.loader.ConfigLoader",
         "plain matcher over the loader's schema"),
    ])
    crosscheck(ctx, "C14.R7", MM + ".createChildMatcher", REF,
               "mixin_createChildMatcher", MM,
               "built from the base child matcher (name rules kept), same "
               "handler list")

    _r9_before_suppression(ctx)

    # R8: a path component may address a section whose type a %import
    # contributed; the bag must not consult the pre-import schema for it
    from rules import stale
    stale.check(ctx, "C14.R8")


def _r9_before_suppression(ctx):
    """C14.R9: 'every line for that key is dropped'.  Whether a line is
    dropped is decided inside <section>.addValue (the overriding matcher tests
    the converted key against the option bag); whatever the parser does with
    the line *before* that hand-over and that can reject the load is applied
    to lines that an override removes as well.  Allowed before the hand-over:
    the parser's own error() for a line that is no key/value line at all.
    Decided on the CFG of handle_key_value with the escape sets of the
    callees."""
    from zcstatic import cfg as C
    run, m, P = ctx.run, ctx.model, ctx.program
    PCq = "ZConfig.cfgparser.ZConfigParser"
    fn = m.lookup_method(PCq, "handle_key_value")
    if fn is None:
        raise AnalysisError("anchor vanished: %s.handle_key_value" % PCq)
    ef = ctx.excflow
    g = C.build(fn)
    hand = [n for n in g.live_nodes() if n.ast is not None
            and n.kind == "stmt" and any(
                isinstance(x, ast.Call) and isinstance(x.func, ast.Attribute)
                and x.func.attr == "addValue" for x in ast.walk(n.ast))]
    if not hand:
        raise AnalysisError("anchor vanished: no <section>.addValue(...) in "
                            "%s" % fn.qualname)
    before = set()
    for h in hand:
        # nodes from which the hand-over is reachable
        for n in g.live_nodes():
            if n is not h and h.id in g.reach_from(n):
                before.add(n.id)
    n_sites = 0
    for n in g.live_nodes():
        if n.id not in before or n.ast is None or n.kind not in ("stmt",
                                                                  "test"):
            continue
        for call in ast.walk(n.ast):
            if not isinstance(call, ast.Call):
                continue
            cs = P.resolve_call(fn, call)
            repo = [c for c in cs if c.kind == "repo"]
            if not repo:
                continue
            if all(ef.is_noreturn(c.fn) for c in repo):
                continue     # the parser's own error(): the line's shape
            classes = set()
            for c in repo:
                rc = PCq if c.fn.cls is not None and m.is_subclass(
                    PCq, c.fn.cls.qualname) else None
                for k in ef.escapes(c.fn, rc):
                    if ef.is_sub(k[0], "ZConfig.ConfigurationError"):
                        classes.add(k[0].rsplit(".", 1)[-1])
            if not classes:
                continue
            n_sites += 1
            run.fail("C14.R9", fn.qualname, src(call),
                     "%s can reject the load (%s) before the line is handed "
                     "to the section, where an override for its key would "
                     "drop it: a line that an override removes is still "
                     "subject to this check" % (src(call),
                                                ", ".join(sorted(classes))),
                     loc=m.loc(fn, call),
                     witness={"call": src(call), "raises": sorted(classes),
                              "hand_over": src(hand[0].ast)[:80]})
    if not n_sites:
        run.ok("C14.R9", fn.qualname, "nothing rejects a line before the "
               "hand-over", "no call between the line's shape test and "
               "<section>.addValue can raise a configuration error",
               loc=m.loc(fn, fn.node))
