"""C19 -- every resource opened during a load is closed, however the load ends.

Decides (proof over the CFG, relative to the trusted base):
  R1  every producer call site in non-test code is consumed (with / close in
      finally) or transferred (returned / wrapped) on every CFG path to every
      exit, normal and exceptional;
  R2  Resource.__exit__ calls close on every path; close closes the wrapped
      stream whenever it is not None;
  R3  the URL stream is only read, inside a try whose finally closes it.
Does not decide: what the stdlib stream objects do when closed; clause
"a failed load leaves nothing behind" is C13.R1/R6 and C12.R4.
"""
import ast

from zcstatic import cfg as cfgmod
from zcstatic import typestate
from zcstatic.model import src, walk_shallow

FLOOR_SITES = 7


def run(ctx):
    run = ctx.run
    m, P = ctx.model, ctx.program
    run.level = "proof"
    run.explanation = (
        "Static typestate analysis over a statement-level CFG with exception "
        "edges: for every call site that produces an open resource, all CFG "
        "paths to the normal and the exceptional exit of the enclosing "
        "function consume or transfer it.  Decides the clause 'closed by the "
        "time the call returns or raises' and 'URL stream closed as soon as "
        "read'; does not decide stdlib stream behaviour.")
    run.trusted_base = [
        "CFG construction of zcstatic/cfg.py (Python semantics of with, "
        "try/finally, short-circuit evaluation)",
        "callee resolution of zcstatic/calls.py (closed world: repository "
        "classes only)",
        "seed list of external stream constructors in zcstatic/typestate.py",
        "a context manager's __exit__ does not swallow exceptions",
    ]
    run.assumptions = [
        "application subclasses overriding createResource/openResource are "
        "outside the claim",
        "a call may raise unless all its resolved callees are total "
        "(straight-line stores and returns)"]
    run.rule("C19.R1", "every producer call site is consumed or transferred "
             "on all CFG paths to all exits", floor=FLOOR_SITES)
    run.rule("C19.R2", "Resource.__exit__ always calls close; close closes "
             "the wrapped stream when it is not None and clears it")
    run.rule("C19.R3", "the raw URL stream is only read, under try/finally "
             "close")

    prods = typestate.Producers(P)
    run.analysed["producer_functions"] = sorted(prods.producers)
    run.analysed["wrapper_classes"] = sorted(prods.wrappers)
    if "ZConfig.loader.Resource" not in prods.wrappers:
        run.soft_error("anchor vanished: ZConfig.loader.Resource is no longer "
                       "recognised as a stream wrapper (constructor stores a "
                       "parameter that close() closes)")
    n_fn = 0
    exits = 0
    for fi in m.functions.values():
        # cheap pre-filter
        has = False
        for n in walk_shallow(fi.node):
            if isinstance(n, ast.Call) and prods.is_producer_call(fi, n):
                has = True
                break
        if not has:
            continue
        n_fn += 1
        sites, leaks, g, n_exits = typestate.analyse_function(fi, P, prods)
        exits += n_exits
        leak_by_site = {}
        for lk in leaks:
            leak_by_site.setdefault(lk["site_line"], []).append(lk)
        for s in sites:
            construct = s["text"]
            lk = leak_by_site.get(s["lineno"])
            if lk:
                run.fail("C19.R1", fi.qualname, construct,
                         "resource produced here may still be open at the %s "
                         "exit of %s (held in %s)"
                         % (lk[0]["exit"], fi.name, lk[0]["var"]),
                         loc=m.loc(fi, s["call"]), witness=lk)
            else:
                run.ok("C19.R1", fi.qualname, construct,
                       "consumed or transferred on every path to both exits "
                       "(%d CFG nodes)" % len(g.reachable),
                       loc=m.loc(fi, s["call"]))
    run.analysed["functions_with_producers"] = n_fn
    run.analysed["consuming_parameters"] = sorted(
        "%s(%s)" % k for k, v in getattr(prods, "_consumes", {}).items() if v)
    run.analysed["exits_checked"] = exits

    _r2(ctx)
    _r3(ctx, prods)
    from rules.common import crosscheck_many
    RS = "ZConfig.loader.Resource"
    crosscheck_many(ctx, "C19.R2", [
        (RS + ".__init__", "resource_init", RS, "wraps the given stream"),
        (RS + ".__enter__", "resource_enter", RS, "with yields the resource"),
        (RS + ".__exit__", "resource_exit", RS, "with-exit closes"),
        (RS + ".close", "resource_close", RS,
         "closes the stream once, clears it"),
        (RS + ".__getattr__", "resource_getattr", RS,
         "delegates to the stream"),
        ("ZConfig.loader.BaseLoader.createResource", "createResource",
         "ZConfig.loader.BaseLoader", "wraps stream and URL"),
    ])
    # R4: a failed load leaves no loader state behind -- what a load pushes on
    # the loader it pops in a finally (decision tables with exception paths
    # equal to the reference); the rest of that clause is C13.R1/R6, C12.R4
    from rules.common import crosscheck
    run.rule("C19.R4", "loader state pushed during a load is restored on "
             "every exit, normal or exceptional", floor=2)
    CL = "ZConfig.loader.ConfigLoader"
    crosscheck(ctx, "C19.R4", CL + ".includeConfiguration", "ref_loader.py",
               "includeConfiguration", CL,
               "open-URL chain: append, then pop in a finally")
    crosscheck(ctx, "C19.R4", CL + ".loadResource", "ref_loader.py",
               "loadResource", CL,
               "open-URL chain: append, then pop in a finally")


def _r2(ctx):
    run, m, P = ctx.run, ctx.model, ctx.program
    for cq in ["ZConfig.loader.Resource"]:
        c = m.cls(cq)
        ex = c.methods.get("__exit__")
        cl = c.methods.get("close")
        if ex is None or cl is None:
            run.soft_error("anchor vanished: %s.__exit__/close" % cq)
            continue
        # __exit__: every path to the normal exit passes a self.close() call
        g = cfgmod.CFG(ex.node)
        selfn = ex.params[0]

        def is_close(n):
            if n.kind != "stmt" or n.ast is None:
                return False
            for x in ast.walk(n.ast):
                if isinstance(x, ast.Call) and isinstance(x.func, ast.Attribute) \
                        and x.func.attr == "close" \
                        and isinstance(x.func.value, ast.Name) \
                        and x.func.value.id == selfn:
                    return True
            return False
        okp, bad = g.must_pass([g.entry], is_close, [g.exit])
        # also the return value must not be truthy (swallowing exceptions)
        swallow = any(isinstance(n, ast.Return) and n.value is not None
                      and not (isinstance(n.value, ast.Constant)
                               and not n.value.value)
                      for n in walk_shallow(ex.node))
        run.check(okp and not swallow, "C19.R2", ex.qualname,
                  "self.close() on every path",
                  "every path entry->exit passes self.close(); returns falsy",
                  "a path through __exit__ skips self.close() or the exception "
                  "is swallowed", loc=m.loc(ex, ex.node))
        # close: `self.file.close()` is executed whenever self.file is not None
        g = cfgmod.CFG(cl.node)
        selfn = cl.params[0]
        closes = []
        for n in g.live_nodes():
            if n.kind == "stmt" and n.ast is not None:
                for x in ast.walk(n.ast):
                    if isinstance(x, ast.Call) and isinstance(
                            x.func, ast.Attribute) and x.func.attr == "close":
                        v = x.func.value
                        if isinstance(v, ast.Attribute) and isinstance(
                                v.value, ast.Name) and v.value.id == selfn:
                            closes.append((n, v.attr))
        if not closes:
            run.fail("C19.R2", cl.qualname, "self.<stream>.close()",
                     "close() never closes the wrapped stream",
                     loc=m.loc(cl, cl.node))
            continue
        node, field = closes[0]
        conds = g.path_conditions(node)
        # allowed guards: `self.<field> is not None` (true) or
        # `self.<field> is None` (false) or truthiness of self.<field>
        bad = []
        for t, pol in conds:
            txt = src(t.ast)
            good = (txt == "%s.%s is not None" % (selfn, field) and pol) or \
                   (txt == "%s.%s is None" % (selfn, field) and not pol) or \
                   (txt == "%s.%s" % (selfn, field) and pol)
            if not good:
                bad.append("%s is %s" % (txt, pol))
        run.check(not bad, "C19.R2", cl.qualname,
                  "self.%s.close() guard" % field,
                  "the stream close is guarded only by 'stream is not None'",
                  "closing the wrapped stream additionally depends on: %s"
                  % "; ".join(bad), loc=m.loc(cl, node.ast))
        # after closing, the field is cleared on every path to exit
        def clears(n):
            if n.kind != "stmt" or not isinstance(n.ast, ast.Assign):
                return False
            for t in n.ast.targets:
                if isinstance(t, ast.Attribute) and t.attr == field \
                        and isinstance(n.ast.value, ast.Constant) \
                        and n.ast.value.value is None:
                    return True
            return False
        okc, _ = g.must_pass([s for _, s in node.succ if _ == "next"], clears,
                             [g.exit])
        run.check(okc, "C19.R2", cl.qualname, "self.%s = None" % field,
                  "the field is cleared after the close on every normal path",
                  "close() can return normally without clearing the stream "
                  "field (a second close would close again)",
                  loc=m.loc(cl, node.ast))


def _r3(ctx, prods):
    """In openResource: the variable bound to urlopen(...) is used only as
    the receiver of read() inside a try whose finally closes it."""
    run, m, P = ctx.run, ctx.model, ctx.program
    found = 0
    for fi in m.functions.values():
        for n in walk_shallow(fi.node):
            if not (isinstance(n, ast.Assign) and isinstance(n.value, ast.Call)):
                continue
            cs = P.resolve_call(fi, n.value)
            if not any(c.kind == "external" and c.name in (
                    "urllib.request.urlopen",) for c in cs):
                continue
            if not (len(n.targets) == 1 and isinstance(n.targets[0], ast.Name)):
                run.soft_error("urlopen result not bound to a plain name at %s"
                               % m.loc(fi, n))
                continue
            var = n.targets[0].id
            found += 1
            bad, n_read, n_close = _stream_uses(P, prods, fi, var, n.lineno)
            run.check(not bad and n_read >= 1 and n_close >= 1, "C19.R3",
                      fi.qualname, src(n),
                      "stream used only for read() under try/finally close; "
                      "content re-wrapped in memory",
                      "; ".join(bad) or "no read/close of the URL stream",
                      loc=m.loc(fi, n))
    if not found:
        run.soft_error("anchor vanished: no urllib.request.urlopen call site "
                       "bound to a variable")


def _stream_uses(P, prods, fi, var, after, depth=0):
    """Uses of the stream variable `var` of `fi` after line `after` (up to
    its next rebinding): read() under try/finally close or inside a `with`
    on the stream (or contextlib.closing of it), close(), or handing it to a
    private helper that takes ownership of that parameter -- whose uses are
    then held to the same rule.  Returns (complaints, reads, closes)."""
    uses = [x for x in walk_shallow(fi.node)
            if isinstance(x, ast.Name) and x.id == var
            and isinstance(x.ctx, ast.Load) and x.lineno > after]
    later_bind = [x.lineno for x in walk_shallow(fi.node)
                  if isinstance(x, ast.Name) and x.id == var
                  and isinstance(x.ctx, ast.Store) and x.lineno > after]
    cut = min(later_bind) if later_bind else 10 ** 9
    bad = []
    n_read = n_close = 0
    for u in uses:
        # (a use on the line of the rebinding is its right-hand side,
        # evaluated before the store)
        if u.lineno > cut:
            continue
        p = u._parent
        if isinstance(p, ast.Attribute) and isinstance(
                p._parent, ast.Call) and p._parent.func is p:
            if p.attr == "read":
                n_read += 1
                if not (_in_try_with_finally_close(p._parent, var)
                        or _in_with_on(p._parent, var)):
                    bad.append("read() at line %d not under try/finally "
                               "close" % u.lineno)
                continue
            if p.attr == "close":
                n_close += 1
                continue
        # with var: / with contextlib.closing(var):
        q = p
        if isinstance(q, ast.Call) and src(q.func).endswith("closing") \
                and len(q.args) == 1 and q.args[0] is u:
            q = q._parent
        if isinstance(q, ast.withitem):
            n_close += 1
            continue
        # handed to a helper that takes ownership
        if isinstance(p, ast.Call) and u in p.args and depth < 3:
            i = p.args.index(u)
            cs = P.resolve_call(fi, p)
            if cs and all(c.kind == "repo" for c in cs) \
                    and i in prods.consumed_args(fi, p):
                okc = True
                for c in cs:
                    ps = list(c.fn.params)
                    if c.fn.cls is not None and c.how in prods.BOUND and ps:
                        ps = ps[1:]
                    b2, r2, c2 = _stream_uses(P, prods, c.fn, ps[i], 0,
                                              depth + 1)
                    bad.extend("%s: %s" % (c.fn.name, x) for x in b2)
                    n_read += r2
                    n_close += c2
                continue
        bad.append("other use '%s' at line %d" % (src(p)[:40], u.lineno))
    return bad, n_read, n_close


def _in_with_on(node, var):
    p = node
    while p is not None:
        parent = getattr(p, "_parent", None)
        if isinstance(parent, ast.With) and p in parent.body:
            for it in parent.items:
                e = it.context_expr
                if isinstance(e, ast.Name) and e.id == var:
                    return True
                if isinstance(e, ast.Call) and src(e.func).endswith(
                        "closing") and len(e.args) == 1 and isinstance(
                        e.args[0], ast.Name) and e.args[0].id == var:
                    return True
        p = parent
    return False


def _in_try_with_finally_close(node, var):
    p = node
    while p is not None:
        parent = getattr(p, "_parent", None)
        if isinstance(parent, ast.Try) and p in parent.body \
                and parent.finalbody:
            for x in parent.finalbody:
                for y in ast.walk(x):
                    if isinstance(y, ast.Call) and isinstance(
                            y.func, ast.Attribute) and y.func.attr == "close" \
                            and isinstance(y.func.value, ast.Name) \
                            and y.func.value.id == var:
                        return True
        p = parent
    return False
