"""C09 -- every standard datatype is a total function honouring its contract.

Decides: the accepted language of the five pattern-based types under CPython's
matching semantics (exact, by automaton equivalence with a reference language
written from the docs); lower-casing and idempotence of key normalisers; the
boolean word sets; inclusive range end points and the port constants; the
suffix tables and complementary windows; the branch tables of the address
parsers and timedelta; the registry's name table vs the docs; that only
ValueError (TypeError for timedelta) escapes.
Does not decide: int/float parsing, inet_pton validity, products, socket
constants.
"""
import ast
import re

from zcstatic import absint as A
from zcstatic import crosscheck as X
from zcstatic import strlang as S
from zcstatic.excflow import ExcFlow, PSEUDO_OWN
from zcstatic.model import Unfoldable, dotted, src
from zcstatic.report import AnalysisError

DT = "ZConfig.datatypes"

IDENT = "[_A-Za-z][_A-Za-z0-9]*"
QUAD = "(?:25[0-5]|2[0-4][0-9]|[01]?[0-9][0-9]|[0-9])"
REFERENCE_LANG = {
    "basic-key": "[A-Za-z][-._A-Za-z0-9]*",
    "identifier": IDENT,
    "dotted-name": r"%s(?:\.%s)*" % (IDENT, IDENT),
    "dotted-suffix": r"%s(?:\.%s)*|(?:\.%s)+" % (IDENT, IDENT, IDENT),
    "ipaddr-or-hostname":
        r"(?:%s\.){3}%s" % (QUAD, QUAD)
        + r"|[A-Za-z_][-A-Za-z0-9_.]*[-A-Za-z0-9_]"
        + r"|[0-9A-Fa-f:.]+:[0-9A-Fa-f:.]*",
}
LOWERING = {"basic-key", "ipaddr-or-hostname"}

BOOL_TRUE = {"yes", "true", "on"}
BOOL_FALSE = {"no", "false", "off"}
BYTE_TABLE = {"kb": 1024, "mb": 1024 ** 2, "gb": 1024 ** 3}
TIME_TABLE = {"s": 1, "m": 60, "h": 3600, "d": 86400}

DOC_KIND = {   # documented name -> implementation the stock table must bind
    "basic-key": "BasicKeyConversion", "boolean": "asBoolean",
    "byte-size": "SuffixMultiplier", "dotted-name": "DottedNameConversion",
    "dotted-suffix": "DottedNameSuffixConversion",
    "existing-dirpath": "existing_dirpath",
    "existing-directory": "existing_directory",
    "existing-file": "existing_file", "existing-path": "existing_path",
    "float": "float_conversion", "identifier": "IdentifierConversion",
    "inet-address": "inet_address",
    "inet-binding-address": "inet_binding_address",
    "inet-connection-address": "inet_connection_address",
    "integer": "integer", "ipaddr-or-hostname": "IpaddrOrHostname",
    "locale": "MemoizedConversion", "null": "null_conversion",
    "port-number": "port_number", "socket-address": "SocketAddress",
    "socket-binding-address": "SocketBindingAddress",
    "socket-connection-address": "SocketConnectionAddress",
    "string": "str", "string-list": "string_list",
    "time-interval": "SuffixMultiplier", "timedelta": "timedelta",
}


def stock_table(ctx):
    m = ctx.model
    mod = m.modules.get(DT)
    if mod is None:
        raise AnalysisError("anchor vanished: module " + DT)
    vals = mod.assigns.get("stock_datatypes")
    if not vals or len(vals) != 1 or not isinstance(vals[0], ast.Dict):
        raise AnalysisError("anchor vanished: stock_datatypes dict display")
    out = {}
    for k, v in zip(vals[0].keys, vals[0].values):
        if not (isinstance(k, ast.Constant) and isinstance(k.value, str)):
            raise AnalysisError("non-constant key in stock_datatypes")
        out[k.value] = v
    return mod, out


def fold_local(m, fi, expr):
    """Fold an expression that may name a single-assignment local of fi."""
    env = {}
    for n in ast.walk(fi.node):
        if isinstance(n, ast.Assign) and len(n.targets) == 1 \
                and isinstance(n.targets[0], ast.Name):
            nm = n.targets[0].id
            cnt = sum(1 for x in ast.walk(fi.node)
                      if isinstance(x, ast.Name) and x.id == nm
                      and isinstance(x.ctx, ast.Store))
            if cnt == 1:
                try:
                    env[nm] = m.fold(fi.module, n.value, env=env)
                except Unfoldable:
                    pass
    return m.fold(fi.module, expr, env=env)


def pattern_of_class(ctx, cq):
    """Follow the constructor chain of a RegularExpressionConversion subclass
    to the pattern string handed to re.compile."""
    m = ctx.model
    base = DT + ".RegularExpressionConversion"
    if base not in m.mro(cq):
        return None
    init = m.lookup_method(cq, "__init__")
    if init is None:
        raise AnalysisError("no constructor for " + cq)
    if init.cls.qualname == base:
        return None  # pattern is a constructor argument, not fixed
    # find the base-constructor call  X.__init__(self, <pattern>)
    for n in ast.walk(init.node):
        if isinstance(n, ast.Call) and isinstance(n.func, ast.Attribute) \
                and n.func.attr == "__init__" and isinstance(
                    n.func.value, ast.Call) and src(n.func.value) \
                == "super()" and len(n.args) == 1:
            # super().__init__(<pattern>): the next class along the MRO
            nxt = [k for k in m.mro(init.cls.qualname)[1:]
                   if k in m.classes and "__init__" in m.classes[k].methods]
            if nxt and base in m.mro(nxt[0]):
                try:
                    return fold_local(m, init, n.args[0])
                except Unfoldable as e:
                    raise AnalysisError("cannot fold pattern of %s: %s"
                                        % (cq, e))
        if isinstance(n, ast.Call) and isinstance(n.func, ast.Attribute) \
                and n.func.attr == "__init__" and len(n.args) in (2, 3):
            tgt = m.resolve(init.module, n.func.value)
            if tgt and base in m.mro(tgt):
                try:
                    pat = fold_local(m, init, n.args[1])
                except Unfoldable as e:
                    raise AnalysisError("cannot fold pattern of %s: %s"
                                        % (cq, e))
                explicit = n.args[2] if len(n.args) == 3 else next(
                    (k.value for k in n.keywords if k.arg == "flags"), None)
                return _base_flags(ctx, init, explicit) + pat
    raise AnalysisError("no base-constructor call with a pattern in %s"
                        % init.qualname)


def _base_flags(ctx, init, explicit):
    """Inline-flag prefix for the flags the base constructor compiles the
    pattern with: the argument a subclass passes, else the default of the
    base constructor's flags parameter (none today)."""
    m = ctx.model
    base = DT + ".RegularExpressionConversion"
    binit = m.lookup_method(base, "__init__")
    if binit is None:
        raise AnalysisError("anchor vanished: %s.__init__" % base)
    comp = [x for x in ast.walk(binit.node) if isinstance(x, ast.Call)
            and m.resolve(binit.module, x.func) == "re.compile"]
    if len(comp) != 1:
        raise AnalysisError("%s.__init__ does not compile exactly one "
                            "pattern" % base)
    c = comp[0]
    fl = c.args[1] if len(c.args) > 1 else next(
        (k.value for k in c.keywords if k.arg == "flags"), None)
    from rules.c03 import inline_flags
    if fl is None:
        if explicit is not None:
            raise AnalysisError("a flags argument is passed to %s.__init__, "
                                "which does not use one" % base)
        return ""
    if isinstance(fl, ast.Name) and fl.id in binit.params:
        a = binit.node.args
        names = [x.arg for x in a.args]
        defaults = dict(zip(names[len(names) - len(a.defaults):],
                            a.defaults))
        if explicit is not None:
            return inline_flags(m, init.module, explicit)
        if fl.id in defaults:
            return inline_flags(m, binit.module, defaults[fl.id])
        raise AnalysisError("flags parameter of %s.__init__ has no default"
                            % base)
    return inline_flags(m, binit.module, fl)


def base_semantic(ctx):
    """Which determinisation models RegularExpressionConversion.__call__."""
    m, P = ctx.model, ctx.program
    live = m.fn(DT + ".RegularExpressionConversion.__call__")
    res = {}
    for sem, ref in (("first", "regex_call_first"), ("full",
                                                     "regex_call_full")):
        r = X.compare(P, live, X.spec_function(m, "ref_datatypes.py", ref,
                                               as_method=True),
                      live_kw={"try_raises": False},
                      ref_kw={"try_raises": False})
        res[sem] = r
        if r["verdict"] == "equivalent":
            return sem, r
    return None, res


def pattern_rule(ctx, rule, only=None):
    """Accepted language of each pattern-based stock datatype (restricted to
    the names in `only`) == its reference language, under the matching
    semantic RegularExpressionConversion.__call__ is shown to implement."""
    run = ctx.run
    m, P = ctx.model, ctx.program
    mod, stock = stock_table(ctx)
    # ------------------------------------------------------------------ R1
    sem, info = base_semantic(ctx)
    base_call = DT + ".RegularExpressionConversion.__call__"
    if sem is None:
        v = info["first"]
        if v["verdict"] == "violation":
            run.fail(rule, base_call, "match-then-compare",
                     "RegularExpressionConversion.__call__ is neither "
                     "'prefix match + whole-string comparison' nor fullmatch",
                     loc=m.loc(m.fn(base_call), m.fn(base_call).node),
                     witness=v["witness"])
        else:
            raise AnalysisError("cannot classify %s: %s" % (base_call, v))
        sem = "first"
    else:
        run.ok(rule, base_call, "matching semantic = " + sem,
               "decision table equals reference '%s' (%d rows)"
               % (sem, info["rows"]), loc=m.loc(m.fn(base_call),
                                                m.fn(base_call).node))
    pattern_types = {}
    for name, node in stock.items():
        if isinstance(node, ast.Call):
            cq = m.resolve(mod, node.func)
            if cq in m.classes:
                pat = pattern_of_class(ctx, cq)
                if pat is not None:
                    pattern_types[name] = (cq, pat)
    run.analysed["pattern_types"] = {k: v[1] for k, v in pattern_types.items()}
    for name in REFERENCE_LANG:
        if only is not None and name not in only:
            continue
        if name not in pattern_types:
            raise AnalysisError("anchor vanished: stock datatype %r is no "
                                "longer pattern-based" % name)
    langs = {}
    for name, (cq, pat) in sorted(pattern_types.items()):
        if only is not None and name not in only:
            continue
        refpat = REFERENCE_LANG.get(name)
        if refpat is None:
            run.note("pattern datatype %s has no reference language" % name)
            continue
        ab = S.Alphabet(S.charsets_of_pattern(pat)
                        + S.charsets_of_pattern(refpat)
                        + [S.cs_of("ABCDEFGHIJKLMNOPQRSTUVWXYZ"),
                           ((0, 127),)])
        live = S.lang_first(pat, ab) if sem == "first" else S.lang_full(pat,
                                                                        ab)
        ref = S.lang_full(refpat, ab)
        langs[name] = (live, ref, ab, pat)
        only_ref = (ref - live).witness()
        only_live = (live - ref).witness()
        where = cq
        if only_ref is not None:
            run.fail(rule, where, "rejects documented input",
                     "%s: a string of the documented language is rejected: %r"
                     % (name, only_ref), loc=m.loc(m.cls(cq).module,
                                                   m.cls(cq).node),
                     witness={"string": only_ref, "pattern": pat,
                              "reference": refpat, "semantic": sem})
        if only_live is not None:
            run.fail(rule, where, "accepts undocumented input",
                     "%s: a string outside the documented language is "
                     "accepted: %r" % (name, only_live),
                     loc=m.loc(m.cls(cq).module, m.cls(cq).node),
                     witness={"string": only_live,
                              "codepoints": [hex(ord(c)) for c in only_live],
                              "pattern": pat, "reference": refpat,
                              "semantic": sem})
        if only_ref is None and only_live is None:
            run.ok(rule, where, name,
                   "L_%s(%r) == L(reference) over %d atoms, %d/%d states"
                   % (sem, pat, ab.n, live.nstates, ref.nstates),
                   loc=m.loc(m.cls(cq).module, m.cls(cq).node))

    return langs, pattern_types


def run(ctx):
    run = ctx.run
    m, P = ctx.model, ctx.program
    run.explanation = (
        "Decides, for the pattern-based standard datatypes, the exact accepted "
        "language under CPython's first-match-by-priority semantics (automaton "
        "equivalence with a reference language, shortest witness on "
        "difference, domain: strings without newline); for the table-driven "
        "ones the decision tables (cross-checked valuation by valuation "
        "against reference implementations that are parsed, never run), the "
        "folded constant tables, the registry/doc agreement and the escape "
        "sets.  Does not decide numeric parsing (int/float), inet_pton, "
        "socket constants.")
    run.assumptions = [
        "input strings contain no newline (the only place '$' and '.' differ)",
        "reference languages/tables in rules/c09.py and spec/ref_datatypes.py "
        "are my reading of docs/standard-datatypes.rst and the property text"]
    run.rule("C09.R1", "accepted language of each pattern datatype == "
             "reference language (first-match semantics)", floor=5)
    run.rule("C09.R2", "lower-casing key normalisers are idempotent: accepted "
             "language is ASCII and closed under lower-casing")
    run.rule("C09.R3", "asBoolean decision table == reference")
    run.rule("C09.R4", "range conversion has inclusive end points; port-number "
             "is integer in 0..65535")
    run.rule("C09.R5", "suffix multiplier tables and windows")
    run.rule("C09.R6", "inet/socket address parser decision tables == "
             "reference; instance defaults")
    run.rule("C09.R7", "timedelta unit table")
    run.rule("C09.R8", "every documented datatype is a stock key bound to the "
             "documented implementation; Registry.get normalises names",
             floor=20)
    run.rule("C09.R9", "only ValueError (TypeError for timedelta) escapes "
             "stock converters", floor=15)

    mod, stock = stock_table(ctx)
    run.analysed["stock_keys"] = sorted(stock)

    # ------------------------------------------------------------------ R1
    langs, pattern_types = pattern_rule(ctx, "C09.R1")

    # wrappers of the pattern converters
    for cq, ref in ((DT + ".BasicKeyConversion", "basic_key_call"),
                    (DT + ".IpaddrOrHostname", "ipaddr_call")):
        fn = m.lookup_method(cq, "__call__")
        r = X.compare(P, fn, X.spec_function(m, "ref_datatypes.py", ref,
                                             as_method=True))
        _verdict(run, "C09.R1", fn, "wrapper around the pattern check", r, m)

    # ------------------------------------------------------------------ R2
    for name in sorted(LOWERING):
        if name not in langs:
            continue
        live, ref, ab, pat = langs[name]
        ascii_only = S.lang_full(r"[\x00-\x7f]*", ab)
        non_ascii = (live - ascii_only).witness()
        # image under ASCII lower: for idempotence it suffices that the
        # accepted language is closed under lower-casing: map each atom to the
        # atom of its lower-case representative
        ok_closed, w = _closed_under_lower(live, ab)
        run.check(non_ascii is None and ok_closed, "C09.R2",
                  pattern_types[name][0], name + " idempotent",
                  "accepted language is ASCII-only and closed under "
                  "lower-casing, so f(f(x)) == f(x)",
                  "lower-casing an accepted %s can leave the accepted "
                  "language (witness %r)" % (name, non_ascii or w),
                  witness={"string": non_ascii or w})

    # ------------------------------------------------------------------ R3
    fn = m.fn(DT + ".asBoolean")
    r = X.compare(P, fn, X.spec_function(m, "ref_datatypes.py", "asBoolean"))
    bad = X.case_sensitive_atoms(P, fn)
    if bad:
        run.fail("C09.R3", fn.qualname, "case-insensitive comparison",
                 "boolean words are compared case-sensitively: %s (an "
                 "upper-case spelling is classified differently)"
                 % "; ".join(bad), loc=m.loc(fn, fn.node),
                 witness={"atoms": bad})
    else:
        _verdict(run, "C09.R3", fn, "boolean words", r, m)

    # ------------------------------------------------------------------ R4
    fn = m.fn(DT + ".RangeCheckedConversion.__call__")
    r = X.compare(P, fn, X.spec_function(m, "ref_datatypes.py", "range_call",
                                         as_method=True))
    _verdict(run, "C09.R4", fn, "inclusive range", r, m)
    pn = mod.assigns.get("port_number")
    ok = False
    detail = "port_number binding not found"
    if pn and len(pn) == 1:
        e = pn[0]
        call = e.value if isinstance(e, ast.Attribute) else e
        if isinstance(call, ast.Call) and m.resolve(mod, call.func) == \
                DT + ".RangeCheckedConversion":
            try:
                args = {}
                names = ["conversion", "min", "max"]
                for i, a in enumerate(call.args):
                    args[names[i]] = a
                for k in call.keywords:
                    args[k.arg] = k.value
                conv = m.resolve(mod, args["conversion"])
                lo = m.fold(mod, args["min"])
                hi = m.fold(mod, args["max"])
                detail = "RangeCheckedConversion(%s, %r, %r)" % (conv, lo, hi)
                ok = (conv == DT + ".integer" and lo == 0 and hi == 65535)
                # and `integer` is int()
                ifn = m.fn(DT + ".integer")
                ip = A.Interp(ifn, P).paths()
                ok = ok and len(ip) == 1 and A.fmt(ip[0].outcome[1]) == \
                    "builtins.int(P0)"
                bound = isinstance(e, ast.Attribute) and e.attr == "__call__" \
                    or isinstance(e, ast.Call)
                ok = ok and bound
            except (KeyError, Unfoldable) as ex:
                detail = "cannot fold port_number arguments: %s" % ex
    run.check(ok, "C09.R4", DT + ".port_number", "port-number constants",
              "port_number = " + detail + "; integer(v) == int(v)",
              "port-number is not integer in 0..65535: " + detail,
              loc=m.rel(mod.path))

    from rules.common import crosscheck_many
    crosscheck_many(ctx, "C09.R4", [
        (DT + ".RegularExpressionConversion.__init__", "regex_init",
         DT + ".RegularExpressionConversion",
         "pattern compiled without flags"),
        (DT + ".RangeCheckedConversion.__init__", "range_init",
         DT + ".RangeCheckedConversion", "bounds kept as given"),
        (DT + ".InetAddress.__init__", "inet_init", DT + ".InetAddress",
         "default host kept as given"),
        (DT + ".integer", "integer", None, "int()"),
        (DT + ".float_conversion", "float_conversion", None, "float()"),
        (DT + ".null_conversion", "null_conversion", None, "identity"),
        (DT + ".string_list", "string_list", None, "split on whitespace"),
        (DT + ".Registry.register", "registry_register", DT + ".Registry",
         "no shadowing of stock or registered names"),
        (DT + ".Registry.__init__", "registry_init", DT + ".Registry",
         "own copy of the stock table, nothing registered"),
        (DT + ".Registry.get", "registry_get", DT + ".Registry",
         "basic-key normalisation of dot-free names; stock before "
         "registered before search"),
        (DT + ".Registry.find_name", "registry_find_name", DT + ".Registry",
         "registered names before stock names"),
    ])

    # ------------------------------------------------------------------ R5
    fn = m.fn(DT + ".SuffixMultiplier.__call__")
    r = X.compare(P, fn, X.spec_function(m, "ref_datatypes.py", "suffix_call",
                                         as_method=True))
    _verdict(run, "C09.R5", fn, "suffix/number windows", r, m)
    for key, table in (("byte-size", BYTE_TABLE), ("time-interval",
                                                   TIME_TABLE)):
        node = stock.get(key)
        ok, detail = False, "not a SuffixMultiplier(...) call"
        if isinstance(node, ast.Call) and m.resolve(mod, node.func) == \
                DT + ".SuffixMultiplier" and node.args:
            try:
                d = m.fold(mod, node.args[0])
                default = 1
                if len(node.args) > 1:
                    default = m.fold(mod, node.args[1])
                for k in node.keywords:
                    if k.arg == "default":
                        default = m.fold(mod, k.value)
                detail = "%r default=%r" % (d, default)
                ok = d == table and default == 1
            except Unfoldable as ex:
                detail = "unfoldable: %s" % ex
        run.check(ok, "C09.R5", DT + ".stock_datatypes[%r]" % key,
                  "suffix table", "folds to %s" % detail,
                  "suffix table differs from the documented one: %s (expected "
                  "%r)" % (detail, table), loc=m.rel(mod.path))
    # _keysz is the common length of the keys; default parameter is 1
    init = m.fn(DT + ".SuffixMultiplier.__init__")
    ok = False
    for n in ast.walk(init.node):
        if isinstance(n, ast.Assign) and any(
                isinstance(t, ast.Attribute) and t.attr == "_keysz"
                for t in n.targets):
            ok = src(n.value).startswith("len(")
    a = init.node.args
    dflt = None
    if a.defaults:
        try:
            dflt = m.fold(mod, a.defaults[-1])
        except Unfoldable:
            pass
    run.check(ok and dflt == 1, "C09.R5", init.qualname, "key size/default",
              "_keysz is a len(...) of the table's keys; default multiplier 1",
              "suffix width or default multiplier changed",
              loc=m.loc(init, init.node))

    # ------------------------------------------------------------------ R6
    fn = m.fn(DT + ".InetAddress.__call__")
    r = X.compare(P, fn, X.spec_function(m, "ref_datatypes.py", "inet_call",
                                         as_method=True))
    _verdict(run, "C09.R6", fn, "host/port split", r, m)
    fn = m.fn(DT + ".SocketAddress.__init__")
    r = X.compare(P, fn, X.spec_function(m, "ref_datatypes.py", "socket_init",
                                         as_method=True))
    _verdict(run, "C09.R6", fn, "family classification", r, m)
    for cq, ref in ((DT + ".SocketAddress", "socket_parse_plain"),
                    (DT + ".SocketBindingAddress", "socket_parse_binding"),
                    (DT + ".SocketConnectionAddress",
                     "socket_parse_connection")):
        fn = m.lookup_method(cq, "_parse_address")
        if fn is None or fn.cls.qualname != cq:
            run.fail("C09.R6", cq, "_parse_address",
                     "%s does not define its own address parser" % cq)
            continue
        r = X.compare(P, fn, X.spec_function(m, "ref_datatypes.py", ref,
                                             as_method=True))
        _verdict(run, "C09.R6", fn, "matching inet parser", r, m)
    want = {"inet_address": "DEFAULT_HOST", "inet_connection_address":
            "127.0.0.1", "inet_binding_address": ""}
    for nm, dflt in want.items():
        vals = mod.assigns.get(nm)
        ok, detail = False, "binding missing"
        if vals and len(vals) == 1 and isinstance(vals[0], ast.Call) \
                and m.resolve(mod, vals[0].func) == DT + ".InetAddress" \
                and len(vals[0].args) == 1:
            a0 = vals[0].args[0]
            if nm == "inet_address":
                detail = src(a0)
                hosts = mod.assigns.get("DEFAULT_HOST", [])
                # two conditional assignments, or one conditional expression
                alts = []
                for h in hosts:
                    alts += [h.body, h.orelse] if isinstance(
                        h, ast.IfExp) else [h]
                try:
                    folded = sorted(m.fold(mod, h) for h in alts)
                except Unfoldable:
                    folded = [src(h) for h in alts]
                ok = isinstance(a0, ast.Name) and a0.id == "DEFAULT_HOST" \
                    and folded == ["", "localhost"]
                detail += " in %r" % folded
            else:
                try:
                    v = m.fold(mod, a0)
                    detail = repr(v)
                    ok = v == dflt
                except Unfoldable:
                    detail = src(a0)
        run.check(ok, "C09.R6", DT + "." + nm, "default host",
                  "InetAddress(%s)" % detail,
                  "documented default host changed: %s" % detail,
                  loc=m.rel(mod.path))

    # ------------------------------------------------------------------ R7
    _timedelta(ctx)

    # ------------------------------------------------------------------ R8
    _registry(ctx, mod, stock)

    # ------------------------------------------------------------------ R9
    _escapes(ctx, mod, stock)


def _verdict(run, rule, fn, construct, r, m):
    from rules.common import verdict
    verdict(run, rule, fn, construct, r, m)
def _closed_under_lower(dfa, ab):
    """For every accepted word, the word with each ASCII upper-case letter
    replaced by its lower-case letter is accepted too."""
    # product of dfa (original) with dfa (lowered image); look for accepted
    # original whose lowered image is rejected
    lower_atom = []
    for i, a in enumerate(ab.atoms):
        cp = a[0][0]
        ch = chr(cp)
        lo = ch.lower() if cp < 128 else ch
        # all members of the atom must map into one atom
        tgt = ab.atom_of_char(lo) if len(lo) == 1 else i
        lower_atom.append(tgt)
    from collections import deque
    start = (dfa.start, dfa.start)
    prev = {start: None}
    q = deque([start])
    while q:
        s = q.popleft()
        p, l = s
        if p in dfa.accept and l not in dfa.accept:
            w = []
            while prev[s] is not None:
                s, a = prev[s]
                w.append(a)
            return False, ab.word(reversed(w))
        for a in range(ab.n):
            t = (dfa.trans[p][a], dfa.trans[l][lower_atom[a]])
            if t not in prev:
                prev[t] = (s, a)
                q.append(t)
    return True, None


def _timedelta(ctx):
    run, m, P = ctx.run, ctx.model, ctx.program
    fn = m.fn(DT + ".timedelta")
    paths = A.Interp(fn, P).paths()
    # per-part body: suffix letter -> variable assigned; else TypeError
    got = {}
    other = None
    kw = {}
    for p in paths:
        letters = [a for a in p.order if a[0] == "eq" and p.valuation[a]]
        if p.outcome[0] == "raise":
            other = p.outcome[1]
            continue
        if p.outcome[0] == "return":
            t = p.outcome[1]
            if t[0] == "call" and A.fmt(t[1]) == "datetime.timedelta":
                for k, v in t[3]:
                    kw[k] = v
                if letters:
                    letter = letters[0][2][1]
                    # which keyword received the float of the number window?
                    for k, v in t[3]:
                        if "float" in A.fmt(v):
                            got[letter] = (k, A.fmt(v), A.fmt(letters[0][1]))
    want = {"w": "weeks", "d": "days", "h": "hours", "m": "minutes",
            "s": "seconds"}
    if not got:
        # not the letter-by-letter comparison chain the rule can read (a
        # table-driven rewrite, say): no verdict rather than a guess
        run.soft_error("C09.R7: timedelta() does not compare the unit "
                       "letter with literals on its paths; the unit table "
                       "cannot be recovered")
        return
    ok = {k: v[0] for k, v in got.items()} == want
    win = all(v[1].endswith("[:-1])") and v[2].endswith("[-1]")
              for v in got.values())
    run.check(ok and win and other == "builtins.TypeError", "C09.R7",
              fn.qualname, "unit letters",
              "w/d/h/m/s bind the same-named keyword; number window part[:-1], "
              "letter part[-1]; unknown letter raises TypeError",
              "timedelta unit table differs: %r, unknown letter -> %s"
              % (got, other), loc=m.loc(fn, fn.node),
              witness={"table": {k: list(v) for k, v in got.items()},
                       "unknown": other})


def _registry(ctx, mod, stock):
    run, m, P = ctx.run, ctx.model, ctx.program
    path = m.data_path("docs", "standard-datatypes.rst")
    with open(path, encoding="utf-8") as f:
        text = f.read()
    documented = re.findall(r"(?m)^\*\*([a-z][-a-z0-9]*)\*\*\s*$", text)
    run.analysed["documented_datatypes"] = documented
    if len(documented) < 20:
        raise AnalysisError("only %d documented datatypes found in %s"
                            % (len(documented), path))
    for name in documented:
        node = stock.get(name)
        if node is None:
            run.fail("C09.R8", DT + ".stock_datatypes", name,
                     "documented datatype %r is not a stock key" % name,
                     loc=m.rel(mod.path))
            continue
        want = DOC_KIND.get(name)
        head = node.func if isinstance(node, ast.Call) else node
        got = (dotted(head) or src(head)).split(".")[-1]
        if want is None:
            run.note("documented datatype %s has no expected implementation "
                     "recorded" % name)
            want = got
        run.check(got == want, "C09.R8", DT + ".stock_datatypes", name,
                  "bound to %s" % got,
                  "documented datatype %r is bound to %s, expected %s"
                  % (name, got, want), loc=m.rel(mod.path), nontrivial=False)
    # Registry.get normalises dot-free names through basic-key before lookup
    fn = m.fn(DT + ".Registry.get")
    paths = A.Interp(fn, P).paths()
    bad = []
    n = 0
    for p in paths:
        dotfree = [a for a in p.order if a[0] == "contains"
                   and a[1] == A.const(".")]
        if not dotfree:
            bad.append("no '.' test on the path")
            continue
        has_dot = p.valuation[dotfree[0]]
        lookups = [A.fmt(e[1]) for e in p.effects if e[0] == "call"]
        # pure .get calls are not effects; inspect the returned term
        txt = A.fmt(p.outcome[1]) if p.outcome[0] == "return" else ""
        n += 1
        if not has_dot and "_basic_key(P0)" not in txt and \
                "basic-key" not in txt and "search" not in txt:
            bad.append("dot-free name looked up without basic-key "
                       "normalisation: " + txt[:80])
        if has_dot and "_basic_key(P0)" in txt:
            bad.append("dotted name normalised through basic-key")
    run.check(not bad and n >= 2, "C09.R8", fn.qualname,
              "name normalisation",
              "on all %d paths a dot-free name is converted by basic-key "
              "before the table lookups" % n, "; ".join(sorted(set(bad))),
              loc=m.loc(fn, fn.node))


def _escapes(ctx, mod, stock):
    run, m, P = ctx.run, ctx.model, ctx.program
    ef = ExcFlow(P)
    allowed = {"builtins.ValueError", PSEUDO_OWN}
    for name, node in sorted(stock.items()):
        head = node.func if isinstance(node, ast.Call) else node
        target = None
        if isinstance(node, ast.Call):
            cq = m.resolve(mod, head)
            if cq in m.classes:
                target = m.lookup_method(cq, "__call__")
                if target is None:
                    continue
        else:
            r = m.resolve(mod, node)
            if r in m.functions:
                target = m.functions[r]
            elif r in m.classes:
                target = m.lookup_method(r, "__init__")
            elif r and r.startswith(DT + "."):
                # module-level instance: find its class
                tags = P.gtype.get((DT, r.rsplit(".", 1)[1]), set())
                for t in tags:
                    if t.startswith("C:"):
                        target = m.lookup_method(t[2:], "__call__")
                    elif t.startswith("M:"):
                        target = m.functions.get(t[2:])
        if target is None:
            run.note("stock datatype %s: no repository callable (e.g. str)"
                     % name)
            continue
        esc = ef.escapes(target)
        ok_extra = {"builtins.TypeError"} if name == "timedelta" else set()
        bad = [(k, v) for k, v in esc.items()
               if k[0] not in allowed | ok_extra
               and not ef.is_sub(k[0], "builtins.ValueError")]
        if bad:
            k, v = bad[0]
            run.fail("C09.R9", target.qualname, "escapes %s" % k[0],
                     "stock datatype %r can raise %s (not ValueError)"
                     % (name, k[0]), loc=k[1],
                     witness={"chain": ef.chain(target, k)})
        else:
            run.ok("C09.R9", target.qualname, name,
                   "escape set %s" % sorted({k[0] for k in esc}),
                   loc=m.loc(target, target.node))
