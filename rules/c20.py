"""C20 -- logger sections produce exactly the configured logging setup, once.

Decides: the level table and range (R1); agreement between the component XML
and the attributes the factories read (R2); the option-consistency table of
the file handler factory (R3); memoisation of factories (R4); which configured
values flow into which logging call, once each and in order (R5); pairing of
the reopen registry (R6); agreement between the accepted style names and the
style table (R7).
Does not decide anything `logging` does with them (rendering, rotation,
stream state).
"""
import ast
import os
import xml.etree.ElementTree as ET

from zcstatic import absint as A
from zcstatic import crosscheck as X
from zcstatic.model import Unfoldable, src, walk_shallow
from zcstatic.report import AnalysisError

LG = "ZConfig.components.logger"
LEVELS = {"critical": 50, "fatal": 50, "error": 40, "warn": 30, "warning": 30,
          "info": 20, "blather": 15, "debug": 10, "trace": 5, "all": 1,
          "notset": 0}
STYLES = {"classic", "format", "template", "safe-template"}


def run(ctx):
    run, m, P = ctx.run, ctx.model, ctx.program
    run.explanation = (
        "Decides the logger component's own decision tables and wiring "
        "statically: the level table and range test, the XML<->Python "
        "attribute agreement for every section type bound to a repository "
        "class, the file handler factory's option table (all valuations of "
        "path class x six option truthinesses), factory memoisation, the "
        "logging calls made by create() with their arguments and order, the "
        "reopen-registry pairing, and the style table agreement -- by "
        "decision-table cross-check against parsed references and table "
        "folding.  Does not decide anything the logging package does with "
        "these values.")
    run.rule("C20.R1", "level names fold to the documented table; input "
             "lower-cased; integers outside 0..50 rejected", floor=2)
    run.rule("C20.R2", "every attribute a factory reads from its section is "
             "declared (own or inherited) by the section type bound to it in "
             "the component XML", floor=25)
    run.rule("C20.R3", "FileHandlerFactory option table == reference")
    run.rule("C20.R4", "Factory.__call__ creates once and returns the stored "
             "instance")
    run.rule("C20.R5", "create(): getLogger(name), setLevel(level), one "
             "addHandler per handler factory in order (NullHandler only when "
             "none), propagate; handler factories set formatter and level",
             floor=5)
    run.rule("C20.R6", "file handler classes register a weak reference, "
             "remove exactly it on close, define reopen; closeFiles / "
             "reopenFiles act on the registry", floor=5)
    run.rule("C20.R9", "the sample record of the load-time format check "
             "is representative of real records (kinds and magnitudes)")
    run.rule("C20.R8", "each format style class: placeholder spellings, "
             "usesTime and format == reference for that style (effective, "
             "i.e. inherited, methods)", floor=12)
    run.rule("C20.R7", "log_format_style accepts exactly the keys of the "
             "style table the formatter factory indexes", floor=2)

    ref = "ref_logger.py"
    # ------------------------------------------------------------------ R1
    try:
        table = m.fold_module_name(LG + ".datatypes", "_logging_levels")
    except AnalysisError as e:
        raise
    run.check(table == LEVELS, "C20.R1", LG + ".datatypes._logging_levels",
              "level table", "folds to the documented names and numbers",
              "level table differs from the documented one: %r"
              % {k: (table.get(k), LEVELS.get(k)) for k in
                 set(table) | set(LEVELS) if table.get(k) != LEVELS.get(k)},
              loc=m.rel(m.modules[LG + ".datatypes"].path))
    fn = m.fn(LG + ".datatypes.logging_level")
    r = X.compare(P, fn, X.spec_function(m, "ref_datatypes.py",
                                         "logging_level"),
                  rename=lambda s: s.replace("?_logging_levels",
                                             LG + ".datatypes._logging_levels"))
    _verdict(run, "C20.R1", fn, "lower-case, table, 0..50", r, m)
    lowered = all("lower()" in A.fmt(a[1]) for p in A.Interp(fn, P).paths()
                  for a in p.order if a[0] in ("contains", "eq"))
    run.check(lowered, "C20.R1", fn.qualname, "case-insensitive lookup",
              "the table lookup uses the lower-cased input",
              "level names are looked up case-sensitively",
              loc=m.loc(fn, fn.node))

    # ------------------------------------------------------------------ R2
    _xml_agreement(ctx)

    # ------------------------------------------------------------------ R3
    fn = m.fn(LG + ".handlers.FileHandlerFactory.__init__")
    r = X.compare(P, fn, X.spec_method(P, ref, "file_handler_init",
                                       LG + ".handlers.FileHandlerFactory"),
                  live_kw={"try_raises": False}, ref_kw={"try_raises": False})
    _verdict(run, "C20.R3", fn, "option consistency table", r, m)

    # ------------------------------------------------------------------ R4
    fn = m.fn(LG + ".factory.Factory.__call__")
    r = X.compare(P, fn, X.spec_method(P, ref, "factory_call",
                                       LG + ".factory.Factory"))
    _verdict(run, "C20.R4", fn, "memoised creation", r, m)
    init = m.fn(LG + ".factory.Factory.__init__")
    ok = any(isinstance(n, ast.Assign) and src(n) == "self.instance = _marker"
             for n in walk_shallow(init.node))
    run.check(ok, "C20.R4", init.qualname, "initial marker",
              "instance starts as the marker", "Factory.__init__ does not "
              "initialise instance to the marker", nontrivial=False)

    # ------------------------------------------------------------------ R5
    for q, refname, cls in (
            (LG + ".logger.LoggerFactoryBase.create", "logger_base_create",
             LG + ".logger.LoggerFactoryBase"),
            (LG + ".logger.LoggerFactory.create", "logger_create",
             LG + ".logger.LoggerFactory"),
            (LG + ".logger.LoggerFactory.__init__", "logger_init",
             LG + ".logger.LoggerFactory"),
            (LG + ".logger.LoggerFactoryBase.__init__", "logger_base_init",
             LG + ".logger.LoggerFactoryBase"),
            (LG + ".handlers.HandlerFactory.create", "handler_create",
             LG + ".handlers.HandlerFactory")):
        fn = m.fn(q)
        r = X.compare(P, fn, X.spec_method(P, ref, refname, cls),
                      rename=lambda s: s.replace("?Factory",
                                                 LG + ".factory.Factory"))
        _verdict(run, "C20.R5", fn, "wiring of configured values", r, m)
    ev = m.cls(LG + ".logger.EventLogFactory")
    try:
        nm = m.fold(ev.module, ev.attrs["name"][0]) if "name" in ev.attrs \
            else "<missing>"
    except Unfoldable:
        nm = "<unfoldable>"
    run.check(nm is None, "C20.R5", ev.qualname, "root logger",
              "EventLogFactory.name is None (logging.getLogger(None) is the "
              "root logger)", "EventLogFactory.name is %r" % (nm,),
              nontrivial=False)

    from rules.common import crosscheck_many
    H = LG + ".handlers"
    crosscheck_many(ctx, "C20.R5", [
        (H + ".HandlerFactory.__init__", "handlerfactory_init",
         H + ".HandlerFactory", "formatter factory built from the section"),
        (H + ".HandlerFactory.getLevel", "handlerfactory_getLevel",
         H + ".HandlerFactory", "the section's level"),
        (H + ".FileHandlerFactory.create_loghandler",
         "filehandler_create_loghandler", H + ".FileHandlerFactory",
         "calls the factory chosen by the option table"),
        (LG + ".logger.LoggerFactoryBase.startup", "logger_startup",
         LG + ".logger.LoggerFactoryBase", "instantiates through the memo"),
        (LG + ".logger.LoggerFactoryBase.reopen", "logger_reopen",
         LG + ".logger.LoggerFactoryBase",
         "reopens the handlers of the memoised logger"),
        (H + ".SMTPHandlerFactory.__init__", "smtp_init",
         H + ".SMTPHandlerFactory", "username and password both or none"),
    ])
    crosscheck_many(ctx, "C20.R7", [
        (H + ".syslog_facility", "syslog_facility", None,
         "lower-cased membership in the facility table"),
        (H + ".get_or_post", "get_or_post", None, "GET or POST, upper-cased"),
        (H + ".http_handler_url", "http_handler_url", None,
         "http URL with location and path"),
        (H + ".log_format", "log_format", None,
         "trial %-formatting against the reference field set"),
        (LG + ".formatter.ctrl_char_insert", "ctrl_char_insert", None,
         "escape rewrites"),
        (LG + ".formatter.escaped_string", "escaped_string", None,
         "escape rewrites"),
    ])

    # ------------------------------------------------------------------ R6
    for cq in (LG + ".loghandler.FileHandler",
               LG + ".loghandler.RotatingFileHandler",
               LG + ".loghandler.TimedRotatingFileHandler"):
        c = m.cls(cq)
        # (the methods the class effectively has: its own or those of a
        # repository mixin / base in front of the logging class)
        init = m.lookup_method(cq, "__init__")
        close = m.lookup_method(cq, "close")
        has_reopen = m.lookup_method(cq, "reopen") is not None
        # decided on the interpreted paths (helpers the rules do not know
        # are seen through): every normal path of the constructor appends
        # weakref.ref(self, <the remover>) to the registry and keeps it in an
        # attribute; every normal path of close() hands that attribute to the
        # remover
        def on_all_normal_paths(fn, pred):
            if fn is None:
                return False
            ps = [p for p in A.Interp(fn, P, try_raises=False).paths()
                  if p.outcome[0] != "raise"]
            return bool(ps) and all(any(pred(e) for e in p.effects)
                                    for p in ps)
        kept = set()

        def is_register(e):
            if e[0] != "call":
                return False
            t = A.fmt(e[1])
            return "_reopenable_handlers.append(weakref.ref(self, " in t \
                and "_remove_from_reopenable" in t

        def is_keep(e):
            if e[0] == "store" and e[1][0] == "attr" \
                    and e[1][1] == ("self",) and A.fmt(e[2]).startswith(
                        "weakref.ref(self, "):
                kept.add(e[1][2])
                return True
            return False
        reg = on_all_normal_paths(init, is_register) \
            and on_all_normal_paths(init, is_keep)

        def is_unregister(e):
            if e[0] != "call":
                return False
            t = e[1]
            return A.fmt(t[1]).endswith("_remove_from_reopenable") \
                and len(t[2]) == 1 and (
                    (t[2][0][0] == "attr" and t[2][0][1] == ("self",)
                     and t[2][0][2] in kept)
                    or A.fmt(t[2][0]).startswith("weakref.ref(self, "))
        unreg = on_all_normal_paths(close, is_unregister)
        run.check(reg and unreg and has_reopen, "C20.R6", cq,
                  "register / unregister / reopen",
                  "constructor registers weakref.ref(self, remover); close() "
                  "removes that reference on every normal path; reopen() is "
                  "defined", "registry pairing broken: registers=%s, "
                  "close removes=%s, reopen defined=%s"
                  % (reg, unreg, has_reopen), loc=m.loc(c.module, c.node))
    for q, refname in ((LG + ".loghandler.closeFiles", "closeFiles"),
                       (LG + ".loghandler.reopenFiles", "reopenFiles"),
                       (LG + ".loghandler._remove_from_reopenable",
                        "remove_from_reopenable")):
        fn = m.fn(q)
        r = X.compare(P, fn, X.spec_function(m, ref, refname))
        _verdict(run, "C20.R6", fn, "registry operation", r, m)

    # ------------------------------------------------------------------ R8
    _style_classes(ctx)
    # the load-time trial itself: every formatter factory formats a sample
    # record with its own format, style and arbitrary-fields setting
    FF = LG + ".formatter.FormatterFactory"
    fn = m.fn(FF + ".__init__")
    r = X.compare(P, fn, X.spec_method(P, ref, "formatterfactory_init", FF),
                  live_kw={"try_raises": False}, ref_kw={"try_raises": False})
    _verdict(run, "C20.R9", fn, "trial formatting at load time, per factory",
             r, m)

    # ------------------------------------------------------------------ R9
    # Load-time validation formats a sample record; it vouches for real
    # records only as far as each sample has the kind of value the logging
    # package puts there: a float where LogRecord has a float (an integer
    # sample lets %d-only / {:d} conversions through), and an integer outside
    # the range of the 'c' conversion where real values are (thread idents,
    # process ids).
    fmod = m.modules[LG + ".formatter"]
    vals = fmod.assigns.get("_log_format_variables")
    if not vals or len(vals) != 1 or not isinstance(vals[0], ast.Dict):
        raise AnalysisError("anchor vanished: %s.formatter."
                            "_log_format_variables is not a dict display"
                            % LG)
    samples = {}
    for k, v in zip(vals[0].keys, vals[0].values):
        try:
            kk = m.fold(fmod, k)
        except Exception:
            continue
        if isinstance(v, ast.Name) and v.id in ("__name__", "__file__"):
            samples[kk] = "<module name>"
            continue
        try:
            samples[kk] = m.fold(fmod, v)
        except Exception:
            samples[kk] = None
    want = {"name": str, "levelno": int, "levelname": str, "pathname": str,
            "filename": str, "module": str, "lineno": int, "created": float,
            "asctime": str, "msecs": float, "relativeCreated": float,
            "thread": int, "message": str, "process": int, "funcName": str}
    bad = {}
    for k, t in want.items():
        if k not in samples:
            bad[k] = "missing"
        elif type(samples[k]) is not t:
            bad[k] = "%s sample, real records carry %s" % (
                type(samples[k]).__name__, t.__name__)
    for k in ("thread", "process"):
        if k in samples and isinstance(samples[k], int) \
                and samples[k] <= 0x10FFFF:
            bad[k] = ("sample %r is inside the range of the 'c' conversion, "
                      "real values are not" % samples[k])
    extra = sorted(set(samples) - set(want))
    run.check(not bad and not extra, "C20.R9",
              LG + ".formatter._log_format_variables", "sample record",
              "every documented record attribute has a sample of the kind "
              "real records carry (%d attributes)" % len(want),
              "the sample record used to validate formats at load time is "
              "not representative: %s%s" % (bad, (" unknown attributes %s"
                                                  % extra) if extra else ""),
              loc=m.rel(m.modules[LG + ".formatter"].path),
              witness={"attributes": bad})

    # ------------------------------------------------------------------ R7
    try:
        # keys of the style table (values are classes: fold keys only)
        mod = m.modules[LG + ".formatter"]
        d = mod.assigns["_log_format_styles"][0]
        keys = {m.fold(mod, k) for k in d.keys}
    except Exception as e:
        raise AnalysisError("cannot fold the style table keys: %s" % e)
    run.check(keys == STYLES, "C20.R7", LG + ".formatter._log_format_styles",
              "style names", "style table keys are %s" % sorted(keys),
              "style table keys %s differ from the documented %s"
              % (sorted(keys), sorted(STYLES)), loc=m.rel(mod.path))
    fn = m.fn(LG + ".formatter.log_format_style")
    r = X.compare(P, fn, X.spec_function(m, ref, "log_format_style"))
    _verdict(run, "C20.R7", fn, "accepts exactly the table's keys "
             "(lower-cased)", r, m)
    ff = m.fn(LG + ".formatter.FormatterFactory.__init__")
    uses = [src(n) for n in walk_shallow(ff.node)
            if isinstance(n, ast.Subscript)
            and src(n.value) == "_log_format_styles"]
    run.check(uses == ["_log_format_styles[self.style]"], "C20.R7",
              ff.qualname, "style class lookup",
              "the style class is looked up in the same table with the "
              "validated style", "style lookup is %s" % uses,
              loc=m.loc(ff, ff.node))


# --------------------------------------------------------------------- R8

STYLE_CLASSES = {
    # class: (logging_style, default_format, asctime_format, asctime_search,
    #         {method: reference})
    "PercentStyle": ("%", "%(message)s", "%(asctime)s", "%(asctime)",
                     {"__init__": "style_init", "usesTime": "percent_usesTime",
                      "format": "percent_format"}),
    "StrFormatStyle": ("{", "{message}", "{asctime}", "{asctime",
                       {"__init__": "style_init",
                        "usesTime": "percent_usesTime",
                        "format": "strformat_format"}),
    "StringTemplateStyle": ("$", "${message}", "${asctime}", "${asctime}",
                            {"__init__": "template_init",
                             "usesTime": "template_usesTime",
                             "format": "template_format"}),
    "SafeStringTemplateStyle": (None, "${message}", "${asctime}",
                                "${asctime}",
                                {"__init__": "template_init",
                                 "usesTime": "template_usesTime",
                                 "format": "safetemplate_format"}),
}


def _style_classes(ctx):
    """The method each style class effectively has (its own or inherited) ==
    the reference for that style, and its class constants == the documented
    placeholder spellings."""
    run, m, P = ctx.run, ctx.model, ctx.program
    FM = LG + ".formatter"
    for cname, (ls, df, af, asr, methods) in sorted(STYLE_CLASSES.items()):
        cq = FM + "." + cname
        if cq not in m.classes:
            raise AnalysisError("anchor vanished: class " + cq)
        got = {}
        for attr in ("logging_style", "default_format", "asctime_format",
                     "asctime_search"):
            try:
                got[attr] = m.fold_class_attr(cq, attr)
            except Exception as e:
                got[attr] = "<unfoldable: %s>" % e
        want = {"logging_style": ls, "default_format": df,
                "asctime_format": af, "asctime_search": asr}
        run.check(got == want, "C20.R8", cq, "placeholder spellings",
                  "class constants are %s" % want,
                  "class constants %s differ from the documented %s"
                  % ({k: v for k, v in got.items() if want[k] != v},
                     {k: v for k, v in want.items() if got[k] != v}),
                  loc=m.loc(m.cls(cq).module, m.cls(cq).node),
                  nontrivial=False)
        for meth, refname in sorted(methods.items()):
            fn = m.lookup_method(cq, meth)
            if fn is None:
                run.fail("C20.R8", cq, meth, "style class %s has no %s"
                         % (cname, meth))
                continue
            rf = X.spec_method(P, "ref_logger.py", refname, cq)
            r = X.compare(P, fn, rf,
                          live_kw={"try_raises": False, "self_class": cq},
                          ref_kw={"try_raises": False, "self_class": cq},
                          rename=lambda s: s.replace(
                              "_StrFormatStyle__formatter", "__formatter"))
            if r["verdict"] == "violation" and not r.get("vanished"):
                run.fail("C20.R8", cq, meth + " (defined in %s)"
                         % fn.qualname.rsplit(".", 2)[-2],
                         "the %s that %s effectively has (%s) differs from "
                         "the reference for this style: live %s, reference %s"
                         % (meth, cname, fn.qualname, r["witness"]["live"],
                            r["witness"]["reference"]),
                         loc=m.loc(fn, fn.node), witness=r["witness"])
            else:
                _verdict(run, "C20.R8", fn, "%s.%s" % (cname, meth), r, m)


# --------------------------------------------------------------------- R2

def _attr_name(el):
    a = el.get("attribute")
    if a:
        return a
    n = el.get("name")
    if n in (None, "*", "+"):
        return None
    return n.lower().replace("-", "_")


def _xml_agreement(ctx):
    run, m, P = ctx.run, ctx.model, ctx.program
    d = os.path.join(m.pkgdir, "components", "logger")
    types = {}
    for fn in sorted(os.listdir(d)):
        if not fn.endswith(".xml"):
            continue
        try:
            root = ET.parse(os.path.join(d, fn)).getroot()
        except ET.ParseError as e:
            raise AnalysisError("cannot parse %s: %s" % (fn, e))
        prefix = root.get("prefix", "")
        for st in root.iter("sectiontype"):
            name = st.get("name").lower()
            attrs = set()
            for ch in st:
                if ch.tag in ("key", "multikey", "section", "multisection"):
                    a = _attr_name(ch)
                    if a:
                        attrs.add(a)
            dt = st.get("datatype")
            if dt and dt.startswith("."):
                dt = (st.get("prefix") or prefix) + dt
            types[name] = {"attrs": attrs, "extends": (st.get("extends")
                                                       or "").lower() or None,
                           "datatype": dt, "file": fn}
    if len(types) < 8:
        raise AnalysisError("only %d section types found in the logger "
                            "component XML" % len(types))

    def all_attrs(name, seen=()):
        t = types.get(name)
        if t is None or name in seen:
            return set()
        out = set(t["attrs"])
        if t["extends"]:
            out |= all_attrs(t["extends"], seen + (name,))
        return out

    n_reads = 0
    for name, t in sorted(types.items()):
        cq = t["datatype"]
        if not cq or cq not in m.classes:
            if cq and cq.startswith("ZConfig."):
                run.fail("C20.R2", "%s <sectiontype %s>" % (t["file"], name),
                         "datatype " + cq,
                         "section type %r is bound to %s, which is not a "
                         "class of the repository" % (name, cq))
            continue
        declared = all_attrs(name)
        reads = _section_reads(ctx, cq, set())
        for attr, where, node in sorted(reads, key=lambda x: (x[0], x[1])):
            n_reads += 1
            run.check(attr in declared, "C20.R2", where,
                      "section.%s for <%s>" % (attr, name),
                      "declared by <sectiontype %s> (own or inherited)"
                      % name,
                      "%s reads section.%s but <sectiontype %s> in %s "
                      "declares no such attribute (declared: %s)"
                      % (where, attr, name, t["file"], sorted(declared)),
                      nontrivial=False)
    _xml_datatypes(ctx, d)
    run.analysed["xml_section_types"] = sorted(types)
    run.analysed["section_attribute_reads"] = n_reads


def _section_reads(ctx, cq, seen):
    """(attribute, function, node) for every read of an attribute of the
    section object in class cq, its bases and the helper classes it
    constructs with the section."""
    m, P = ctx.model, ctx.program
    out = set()
    if cq in seen:
        return out
    seen.add(cq)
    stored = set()   # self.<x> = section, anywhere in the hierarchy
    for k in m.mro(cq):
        c = m.classes.get(k)
        init = c.methods.get("__init__") if c is not None else None
        if init is not None and len(init.params) >= 2:
            for n in walk_shallow(init.node):
                if isinstance(n, ast.Assign) and isinstance(n.value, ast.Name) \
                        and n.value.id == init.params[1]:
                    for t in n.targets:
                        if isinstance(t, ast.Attribute) and isinstance(
                                t.value, ast.Name) \
                                and t.value.id == init.params[0]:
                            stored.add(t.attr)
    for k in m.mro(cq):
        c = m.classes.get(k)
        if c is None:
            continue
        init = c.methods.get("__init__")
        sec_param = None
        if init is not None and len(init.params) >= 2:
            sec_param = init.params[1]
        if False:
            for n in walk_shallow(init.node):
                if isinstance(n, ast.Assign) and isinstance(n.value, ast.Name) \
                        and n.value.id == sec_param:
                    for t in n.targets:
                        if isinstance(t, ast.Attribute) and isinstance(
                                t.value, ast.Name) \
                                and t.value.id == init.params[0]:
                            stored.add(t.attr)
        for meth in c.methods.values():
            for n in walk_shallow(meth.node):
                if isinstance(n, ast.Attribute) and isinstance(n.ctx,
                                                               ast.Load):
                    v = n.value
                    if meth is init and isinstance(v, ast.Name) \
                            and v.id == sec_param:
                        out.add((n.attr, meth.qualname, n))
                    elif isinstance(v, ast.Attribute) and isinstance(
                            v.value, ast.Name) and meth.params \
                            and v.value.id == meth.params[0] \
                            and v.attr in stored:
                        out.add((n.attr, meth.qualname, n))
                # helper classes constructed with the section
                if meth is init and isinstance(n, ast.Call) and n.args \
                        and isinstance(n.args[0], ast.Name) \
                        and n.args[0].id == sec_param:
                    tgt = m.resolve(meth.module, n.func)
                    if tgt in m.classes and tgt not in m.mro(cq):
                        out |= _section_reads(ctx, tgt, seen)
    return out


def _verdict(run, rule, fn, construct, r, m):
    from rules.common import verdict
    verdict(run, rule, fn, construct, r, m)


LOGFMT = LG + ".formatter.escaped_string"
# (section type, attribute) -> datatype the factories rely on (from
# docs/logging-components.rst and the component descriptions)
XML_DATATYPES = {
    ("zconfig.logger.base-logger", "level"):
        LG + ".datatypes.logging_level",
    ("zconfig.logger.base-log-handler", "level"):
        LG + ".datatypes.logging_level",
    ("zconfig.logger.base-log-handler", "style"):
        LG + ".formatter.log_format_style",
    ("zconfig.logger.base-log-handler", "arbitrary_fields"): "boolean",
    ("zconfig.logger.base-log-handler", "formatter"): "dotted-name",
    ("logfile", "old_files"): "integer",
    ("logfile", "max_size"): "byte-size",
    ("logfile", "interval"): "integer",
    ("logfile", "delay"): "boolean",
    ("logfile", "format"): LOGFMT,
    ("syslog", "facility"): LG + ".handlers.syslog_facility",
    ("syslog", "address"): "socket-address",
    ("syslog", "format"): LOGFMT,
    ("win32-eventlog", "format"): LOGFMT,
    ("http-logger", "url"): LG + ".handlers.http_handler_url",
    ("http-logger", "method"): LG + ".handlers.get_or_post",
    ("http-logger", "format"): LOGFMT,
    ("email-notifier", "smtp_server"): "inet-address",
    ("email-notifier", "format"): LOGFMT,
    ("logger", "propagate"): "boolean",
    ("logger", "name"): "dotted-name",
}
XML_IMPLEMENTS = {
    "logfile": "zconfig.logger.handler", "syslog": "zconfig.logger.handler",
    "win32-eventlog": "zconfig.logger.handler",
    "http-logger": "zconfig.logger.handler",
    "email-notifier": "zconfig.logger.handler",
    "logger": "zconfig.logger.log", "eventlog": "zconfig.logger.log",
}


def _xml_datatypes(ctx, d):
    run, m = ctx.run, ctx.model
    from rules.c09 import stock_table
    _, stock = stock_table(ctx)
    seen = {}
    impl = {}
    multis = {}
    for fn in sorted(os.listdir(d)):
        if not fn.endswith(".xml"):
            continue
        root = ET.parse(os.path.join(d, fn)).getroot()
        prefix = root.get("prefix", "")
        for st in root.iter("sectiontype"):
            tname = st.get("name").lower()
            if st.get("implements"):
                impl[tname] = st.get("implements").lower()
            for ch in st:
                if ch.tag not in ("key", "multikey", "section",
                                  "multisection"):
                    continue
                a = _attr_name(ch)
                dt = ch.get("datatype")
                if dt and dt.startswith("."):
                    dt = prefix + dt
                if ch.tag == "multisection":
                    multis[(tname, a)] = (ch.get("type") or "").lower()
                seen[(tname, a)] = dt
                if dt is None:
                    continue
                ok = dt in stock or dt in m.functions or dt in m.classes
                run.check(ok, "C20.R2", "%s <sectiontype %s>" % (fn, tname),
                          "datatype of %s: %s" % (a, dt),
                          "names a stock datatype or a repository callable",
                          "key %s of <%s> in %s names the datatype %s, which "
                          "is neither a stock datatype nor a callable of the "
                          "repository" % (a, tname, fn, dt),
                          nontrivial=False)
    for (t, a), want in sorted(XML_DATATYPES.items()):
        got = seen.get((t, a), "<missing>")
        run.check(got == want, "C20.R2", "<sectiontype %s>" % t,
                  "%s is converted by %s" % (a, want),
                  "declared with the datatype its factory relies on",
                  "key %s of <%s> is declared with datatype %s; the factory "
                  "relies on %s" % (a, t, got, want), nontrivial=False)
    for t, want in sorted(XML_IMPLEMENTS.items()):
        run.check(impl.get(t) == want, "C20.R2", "<sectiontype %s>" % t,
                  "implements " + want, "registered under the abstract type "
                  "its container slot uses",
                  "<%s> implements %s, expected %s" % (t, impl.get(t), want),
                  nontrivial=False)
    run.check(multis.get(("zconfig.logger.base-logger", "handlers"))
              == "zconfig.logger.handler", "C20.R2",
              "<sectiontype zconfig.logger.base-logger>",
              "handlers: multisection of the abstract handler type",
              "one handler factory per handler section, in order",
              "the handlers slot is %s" % multis.get(
                  ("zconfig.logger.base-logger", "handlers")),
              nontrivial=False)
