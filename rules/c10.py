"""C10 -- schema documents are accepted exactly when they obey the rules.

Decides: the element dispatch is exhaustive and guarded by the nesting table
(R1, R2); the nesting table agrees with the DTD up to four triaged, frozen
discrepancies (R3); uniqueness guards precede the stores (R4); default
placement rules (R5); every listed rule has a raise that precedes the
constructive effect it protects -- as decision tables of the start_*/get_*
methods cross-checked against a parsed reference (R6); errors raised while a
schema is built are schema errors carrying the locator (R7); overriding
start_* methods of the component parser delegate to the base (R8).
Does not decide that every rule-satisfying document is accepted.
"""
import ast
import re

from rules.common import crosscheck
from zcstatic.excflow import PSEUDO_OWN, UNKNOWN
from zcstatic.model import src, walk_shallow
from zcstatic.report import AnalysisError

SP = "ZConfig.schema"
BP = SP + ".BaseParser"
INF = "ZConfig.info"
RS = "ref_schema.py"
RI = "ref_info.py"

# discrepancies between docs/schema.dtd and the parser's nesting table,
# triaged by reading (the DTD's header says it is not normative for legality;
# the shipped logger component uses <import> inside <component>)
DTD_EXCEPTIONS = {
    ("schema", "metadefault"): "DTD only",
    ("section", "metadefault"): "code only",
    ("multisection", "metadefault"): "code only",
    ("component", "import"): "code only (used by the shipped components)",
}


def dtd_children(path):
    text = open(path, encoding="utf-8").read()
    text = re.sub(r"<!--.*?-->", "", text, flags=re.S)
    rel = set()
    for mm in re.finditer(r"<!ELEMENT\s+([\w-]+)\s+(.*?)>", text, re.S):
        parent, model = mm.group(1), mm.group(2)
        for child in re.findall(r"[A-Za-z][\w-]*", model):
            if child in ("EMPTY", "PCDATA", "ANY"):
                continue
            rel.add((parent, child))
    return rel


def run(ctx):
    run, m, P = ctx.run, ctx.model, ctx.program
    run.explanation = (
        "Decides the enforcement side of the schema language rules: dispatch "
        "tables folded from the parser classes and cross-checked against the "
        "methods that exist and against docs/schema.dtd; decision tables of "
        "the SAX callbacks, of every start_*/get_* method and of the "
        "info-layer guards (uniqueness, default placement, ordinality), "
        "cross-checked valuation by valuation against a parsed reference; "
        "the escape set of SchemaLoader loading (only SchemaError-family, "
        "built through error() with the locator).  Does not decide that "
        "every rule-satisfying document is accepted.")
    run.rule("C10.R1", "every handled tag has start_/end_ methods, every "
             "cdata tag a characters_ method; nesting-table keys = handled + "
             "cdata tags; top-level element handled", floor=20)
    run.rule("C10.R2", "startElement / characters / endElement == reference "
             "(unknown tag, nesting, document element, stray text)", floor=3)
    run.rule("C10.R3", "nesting table == DTD content models up to the four "
             "triaged discrepancies")
    run.rule("C10.R4", "name / attribute / type uniqueness guards precede the "
             "stores", floor=2)
    run.rule("C10.R5", "default placement: keyed iff wildcard, single default, "
             "duplicate wildcard default key, key-type conversion of default "
             "keys", floor=5)
    run.rule("C10.R6", "rule-enforcing methods of the parser == reference",
             floor=14)
    run.rule("C10.R9", "the name converters the schema parser uses accept "
             "exactly their documented languages", floor=3)
    run.rule("C10.R7", "only SchemaError-family exceptions leave schema "
             "loading from the schema/info layer; parser errors carry the "
             "locator", floor=2)
    run.rule("C10.R8", "overriding start_* of the component parser call the "
             "base implementation", floor=4)

    # ------------------------------------------------------------------ R1
    base_handled = set(m.fold_class_attr(BP, "_handled_tags"))
    cdata = set(m.fold_class_attr(BP, "_cdata_tags"))
    allowed = m.fold_class_attr(BP, "_allowed_parents")
    tops = set()
    for cq in (SP + ".SchemaParser", SP + ".ComponentParser"):
        handled = set(m.fold_class_attr(cq, "_handled_tags"))
        top = m.fold_class_attr(cq, "_top_level")
        tops.add(top)
        run.check(top in handled, "C10.R1", cq, "_top_level handled",
                  "%r is in _handled_tags" % top,
                  "top-level element %r is not a handled tag" % top,
                  nontrivial=False)
        for tag in sorted(handled):
            for pre in ("start_", "end_"):
                meth = m.lookup_method(cq, pre + tag)
                run.check(meth is not None, "C10.R1", cq, pre + tag,
                          "resolves to %s" % (meth.qualname if meth else
                                              None),
                          "handled tag %r has no %s method in %s"
                          % (tag, pre + tag, cq), nontrivial=False)
        for tag in sorted(cdata):
            meth = m.lookup_method(cq, "characters_" + tag)
            run.check(meth is not None, "C10.R1", cq, "characters_" + tag,
                      "resolves to %s" % (meth.qualname if meth else None),
                      "cdata tag %r has no characters_ method" % tag,
                      nontrivial=False)
        extra = {n for k in m.mro(cq) if k in m.classes
                 for n in m.classes[k].methods
                 if n.startswith("start_") and n[6:] not in handled}
        run.check(not extra, "C10.R1", cq, "no unreachable start_ methods",
                  "every start_<x> is a handled tag",
                  "start_ methods for tags outside _handled_tags: %s"
                  % sorted(extra), nontrivial=False)
    want_keys = base_handled | cdata
    run.check(set(allowed) == want_keys, "C10.R1", BP + "._allowed_parents",
              "keys = handled + cdata tags",
              "nesting table has an entry for each of the %d non-top-level "
              "elements" % len(want_keys),
              "nesting table keys differ: missing %s, extra %s"
              % (sorted(want_keys - set(allowed)),
                 sorted(set(allowed) - want_keys)))

    # ------------------------------------------------------------------ R2
    crosscheck(ctx, "C10.R2", BP + ".startElement", RS, "startElement", BP,
               "unknown tag / nesting / document element / dispatch")
    crosscheck(ctx, "C10.R2", BP + ".characters", RS, "characters", BP,
               "non-blank text outside a cdata element is refused")
    crosscheck(ctx, "C10.R2", BP + ".endElement", RS, "endElement", BP,
               "end dispatch / cdata hand-over")

    # ------------------------------------------------------------------ R3
    code_rel = {(p, c) for c, ps in allowed.items() for p in ps}
    dtd_rel = dtd_children(m.data_path("docs", "schema.dtd"))
    diff = (code_rel ^ dtd_rel) - set(DTD_EXCEPTIONS)
    stale = set(DTD_EXCEPTIONS) - (code_rel ^ dtd_rel)
    run.check(not diff, "C10.R3", BP + "._allowed_parents",
              "child-of relation vs docs/schema.dtd",
              "%d pairs in the code, %d in the DTD, %d triaged discrepancies"
              % (len(code_rel), len(dtd_rel), len(DTD_EXCEPTIONS)),
              "nesting differs from the DTD: code only %s, DTD only %s"
              % (sorted(p for p in diff if p in code_rel),
                 sorted(p for p in diff if p in dtd_rel)),
              witness={"pairs": sorted(diff)})
    run.extra["dtd_discrepancies_listed"] = {
        "%s>%s" % k: v for k, v in DTD_EXCEPTIONS.items()}
    if stale:
        run.note("triaged DTD discrepancies no longer present: %s"
                 % sorted(stale))

    # ------------------------------------------------------------------ R4
    crosscheck(ctx, "C10.R4", INF + ".SectionType._add_child", RI,
               "add_child", INF + ".SectionType",
               "name and attribute uniqueness before the three stores")
    crosscheck(ctx, "C10.R4", INF + ".SchemaType.addtype", RI, "addtype",
               INF + ".SchemaType", "type redefinition refused")
    crosscheck(ctx, "C10.R4", INF + ".SectionType.addsection", RI,
               "addsection", INF + ".SectionType", "delegates to _add_child")
    crosscheck(ctx, "C10.R4", INF + ".SectionType.addkey", RI, "addkey",
               INF + ".SectionType", "delegates to _add_child")

    crosscheck(ctx, "C10.R4", INF + ".SchemaType.deriveSectionType", RI,
               "deriveSectionType", INF + ".SchemaType",
               "inherited names and attributes enter the derived type's "
               "uniqueness tables")

    # ------------------------------------------------------------------ R5
    crosscheck(ctx, "C10.R5", INF + ".BaseKeyInfo.adddefault", RI,
               "adddefault", INF + ".BaseKeyInfo", "keyed iff wildcard")
    crosscheck(ctx, "C10.R5", INF + ".BaseKeyInfo.finish", RI,
               "keyinfo_finish", INF + ".BaseKeyInfo", "finish once")
    crosscheck(ctx, "C10.R5", INF + ".KeyInfo.add_valueinfo", RI,
               "key_add_valueinfo", INF + ".KeyInfo",
               "second default / duplicate key refused")
    crosscheck(ctx, "C10.R5", INF + ".MultiKeyInfo.add_valueinfo", RI,
               "multikey_add_valueinfo", INF + ".MultiKeyInfo",
               "defaults collected per key in order")
    crosscheck(ctx, "C10.R5", INF + ".KeyInfo.computedefault", RI,
               "key_computedefault", INF + ".KeyInfo",
               "default keys converted with the container's key type")
    crosscheck(ctx, "C10.R5", INF + ".MultiKeyInfo.computedefault", RI,
               "multikey_computedefault", INF + ".MultiKeyInfo",
               "default keys converted with the container's key type")
    crosscheck(ctx, "C10.R5", INF + ".BaseKeyInfo.convert_default_key", RI,
               "convert_default_key", INF + ".BaseKeyInfo",
               "a default key the key type rejects is a SchemaError")
    crosscheck(ctx, "C10.R5", INF + ".BaseKeyInfo.prepare_raw_defaults", RI,
               "prepare_raw_defaults", INF + ".BaseKeyInfo",
               "raw defaults kept once, working table reset")
    crosscheck(ctx, "C10.R5", BP + ".characters_default", RS,
               "characters_default", BP, "default element -> adddefault")

    # ------------------------------------------------------------------ R6
    for name in ("get_name_info", "get_key_info", "get_required",
                 "get_ordinality", "get_sectiontype", "get_handler",
                 "get_datatype", "get_sect_typeinfo", "start_key", "end_key",
                 "start_multikey", "end_multikey", "start_section",
                 "start_multisection", "start_abstracttype",
                 "start_sectiontype", "end_sectiontype", "start_import",
                 "characters_description", "characters_example"):
        crosscheck(ctx, "C10.R6", BP + "." + name, RS, name, BP, name)

    # constructors and the small methods every element passes through: the
    # parser starts with nothing remembered, one object is popped per closed
    # element, descriptions of base schemas are offered to the extending one
    SPq, CPq = SP + ".SchemaParser", SP + ".ComponentParser"
    for live, ref, cq in (
            (BP + ".__init__", "baseparser_init", BP),
            (SPq + ".__init__", "schemaparser_init", SPq),
            (CPq + ".__init__", "componentparser_init", CPq),
            (BP + ".setDocumentLocator", "setDocumentLocator", BP),
            (BP + ".endDocument", "endDocument", BP),
            (BP + ".get_position", "get_position", BP),
            (BP + ".characters_metadefault", "characters_metadefault", BP),
            (BP + ".end_import", "end_import", BP),
            (BP + ".end_section", "end_pop", BP),
            (BP + ".end_multisection", "end_pop", BP),
            (BP + ".end_abstracttype", "end_pop", BP),
            (SPq + ".start_schema", "start_schema", SPq),
            (SPq + ".end_schema", "end_schema", SPq),
            (CPq + ".characters_description",
             "component_characters_description", CPq),
            (CPq + ".start_key", "component_start_key", CPq),
            (CPq + ".start_multikey", "component_start_multikey", CPq),
            (CPq + ".start_section", "component_start_section", CPq),
            (CPq + ".start_multisection", "component_start_multisection",
             CPq),
            (CPq + ".start_component", "start_component", CPq),
            (CPq + ".end_component", "end_component", CPq),
            (CPq + "._check_not_toplevel", "check_not_toplevel", CPq)):
        crosscheck(ctx, "C10.R6", live, RS, ref, cq, ref)

    # ------------------------------------------------------------------ R9
    # "well-formed names": the converters the schema parser applies to names,
    # attributes, prefixes and datatype names accept exactly their documented
    # languages (the same decision as C09.R1, for the names used here)
    from rules import c07, c09
    used = set()
    for fi in m.functions.values():
        if fi.module.name not in ("ZConfig.schema", "ZConfig.info"):
            continue
        for n in walk_shallow(fi.node):
            if isinstance(n, ast.Call) and isinstance(n.func, ast.Attribute) \
                    and n.func.attr == "get" and n.args:
                vals = c07.possible_constants(fi, n.args[0]) \
                    if "registry" in src(n.func.value).lower() else None
                for v in vals or ():
                    if isinstance(v, str):
                        used.add(v)
    used &= set(c09.REFERENCE_LANG)
    run.analysed["name_converters_used_by_schema_parser"] = sorted(used)
    if len(used) < 3:
        raise AnalysisError("anchor vanished: the schema parser no longer "
                            "obtains its name converters from the registry "
                            "by literal name (found %s)" % sorted(used))
    c09.pattern_rule(ctx, "C10.R9", only=used)

    # ------------------------------------------------------------------ R7
    ef = ctx.excflow
    c07._install_specialisations(ctx, ef)
    SL = "ZConfig.loader.SchemaLoader"
    for q in ("ZConfig.loader.BaseLoader.loadURL",
              "ZConfig.loader.BaseLoader.loadFile"):
        fi = m.fn(q)
        esc = ef.escapes(fi, SL)
        bad = 0
        for k, info in sorted(esc.items()):
            cls = k[0]
            if cls == PSEUDO_OWN or ef.is_sub(cls, "ZConfig.SchemaError"):
                continue
            sfn = c07.site_function(m, k[1])
            if not (sfn.startswith("ZConfig.schema.")
                    or sfn.startswith("ZConfig.info.")
                    or sfn.startswith("ZConfig.datatypes.Registry.")):
                continue   # resource-level failures are not schema rules
            chain = ef.chain(fi, k, SL)
            if info.get("amb") or cls == UNKNOWN:
                run.soft_error("C10.R7: unresolved receiver on the chain to "
                               "%s: %s" % (k, " -> ".join(chain)))
                continue
            bad += 1
            run.fail("C10.R7", sfn, "%s: %s" % (cls.split(".")[-1],
                                                k[1].split(" ", 1)[-1]),
                     "%s can leave schema loading (%s[self:SchemaLoader]) "
                     "from the schema/info layer; schema rule violations "
                     "must be SchemaError" % (cls, q),
                     loc=k[1].split(" ")[0], witness={"chain": chain})
        if not bad:
            run.ok("C10.R7", q + "[self:SchemaLoader]", "escape set",
                   "every exception raised in schema.py/info.py that can "
                   "leave is a SchemaError (%d items)" % len(esc),
                   loc=m.loc(fi, fi.node))
    crosscheck(ctx, "C10.R7", BP + ".error", RS, "error", BP,
               "errors are built through initerror (locator attached)")
    crosscheck(ctx, "C10.R7", BP + ".initerror", RS, "initerror", BP,
               "line, column, url from the locator")
    for w in ("basic_key", "identifier"):
        crosscheck(ctx, "C10.R7", BP + "." + w, RS, w, BP,
                   "ValueError of the converter -> schema error")

    # ------------------------------------------------------------------ R8
    cp = m.cls(SP + ".ComponentParser")
    for name, meth in sorted(cp.methods.items()):
        if not name.startswith("start_") or name == "start_component":
            continue
        base = m.lookup_method(BP, name)
        if base is None:
            continue
        def to_base(call):
            # Base.m(self, ...) or super().m(...), by resolved callee
            return any(c.kind == "repo" and c.fn is base
                       for c in P.resolve_call(meth, call))
        calls_base = any(isinstance(n, ast.Call) and to_base(n)
                         for n in walk_shallow(meth.node))
        last = meth.node.body[-1]
        tail = isinstance(last, ast.Expr) and isinstance(last.value, ast.Call) \
            and to_base(last.value)
        run.check(calls_base and tail, "C10.R8", meth.qualname,
                  "delegates to " + base.qualname,
                  "ends with a call of the base implementation",
                  "%s does not delegate to the base implementation: the "
                  "rules it enforces are skipped for components"
                  % meth.qualname, loc=m.loc(meth, meth.node))
