import io, os, sys, tempfile
import ZConfig, ZConfig.loader
tmp = tempfile.mkdtemp(prefix="zcf25"); sys.path.insert(0, tmp)
d = os.path.join(tmp, "zcf25_gadgets"); os.makedirs(d)
open(os.path.join(d, "__init__.py"), "w").close()
open(os.path.join(d, "component.xml"), "w").write("""<component>
  <sectiontype name="gadget" implements="item">
    <key name="size" datatype="integer" default="7"/>
  </sectiontype>
</component>
""")
schema = ZConfig.loadSchemaFile(io.StringIO("""<schema>
  <abstracttype name="item"/>
  <multisection type="item" name="*" attribute="items"/>
</schema>
"""))
def load(loader, text):
    try:
        conf, _ = loader.loadFile(io.StringIO(text))
    except ZConfig.ConfigurationError as e:
        return "%s: %s" % (type(e).__name__, e)
    return [(s.getSectionType(), s.getSectionName(), s.size) for s in conf.items]
T1 = "%import zcf25_gadgets\n<gadget a/>\n"
T2 = "<gadget b/>\n"
reused = ZConfig.loader.ConfigLoader(schema)
print("load 1 (with %import):", load(reused, T1))
print("load 2 on the same loader, no %import:", load(reused, T2))
print("load 2 on a fresh loader:", load(ZConfig.loader.ConfigLoader(schema), T2))
