"""F25: a section type that extends another and overrides the key type keeps
the base's key names as normalised under the BASE's key type; the written-out
expansion normalises them under the new key type."""
import io, sys
import ZConfig
def schema(xml): return ZConfig.loadSchemaFile(io.StringIO(xml))
composed = schema("""<schema>
  <sectiontype name="base"><key name="Level" datatype="integer" default="1"/></sectiontype>
  <sectiontype name="derived" extends="base" keytype="identifier"/>
  <section type="derived" name="*" attribute="s"/>
</schema>""")
expanded = schema("""<schema>
  <sectiontype name="derived" keytype="identifier"><key name="Level" datatype="integer" default="1"/></sectiontype>
  <section type="derived" name="*" attribute="s"/>
</schema>""")
def load(s, text):
    try:
        conf, _ = ZConfig.loadConfigFile(s, io.StringIO(text))
    except ZConfig.ConfigurationError as e:
        return "%s: %s" % (type(e).__name__, e)
    return conf.s.Level if hasattr(conf.s, "Level") else vars(conf.s)
bad = 0
for text in ("<derived>\n Level 5\n</derived>\n", "<derived>\n level 5\n</derived>\n"):
    a, b = load(composed, text), load(expanded, text)
    print(repr(text), "\n   composed:", a, "\n   expanded:", b)
    bad += a != b
sys.exit(1 if bad else 0)
