"""Known finding F8 (C12, C13): a load that uses %import registers the imported
implementers on AbstractType objects that the per-load derived schema shares
with the application schema.

Run with the repository's interpreter:  /venv/bin/python F8_import_leaks_implementers.py
Prints the implementers of the abstract type of the *application* schema before
and after one load; they differ.
"""
import io
import os
import sys
import tempfile

import ZConfig

d = tempfile.mkdtemp()
pkg = os.path.join(d, "f8pkg")
os.mkdir(pkg)
open(os.path.join(pkg, "__init__.py"), "w").close()
with open(os.path.join(pkg, "component.xml"), "w") as f:
    f.write("<component><sectiontype name='impl' implements='abs'/>"
            "</component>")
sys.path.insert(0, d)

schema = ZConfig.loadSchemaFile(io.StringIO(
    "<schema><abstracttype name='abs'/>"
    "<section type='abs' name='*' attribute='a'/></schema>"))
before = schema.gettype("abs").getsubtypenames()
ZConfig.loadConfigFile(schema, io.StringIO("%import f8pkg\n<impl/>\n"))
after = schema.gettype("abs").getsubtypenames()
print("implementers of 'abs' in the application schema before:", before)
print("implementers of 'abs' in the application schema after :", after)
sys.exit(0 if before == after else 1)
