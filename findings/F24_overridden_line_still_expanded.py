"""F24: a line whose key is overridden is still $-expanded before it is
dropped: an undefined (or malformed) reference on it rejects the load, while
the text with that line edited by hand loads."""
import io, sys
import ZConfig
schema = ZConfig.loadSchemaFile(io.StringIO("""<schema>
  <key name="k" default="d"/>
  <key name="other" default="o"/>
</schema>"""))
def load(text, overrides=()):
    try:
        conf, _ = ZConfig.loadConfigFile(schema, io.StringIO(text), overrides=overrides)
    except ZConfig.ConfigurationError as e:
        return "%s: %s" % (type(e).__name__, e)
    return (conf.k, conf.other)
edited = load("k new\nother x\n")
overridden = load("k $undefined\nother x\n", ["k=new"])
malformed = load("k ${oops\nother x\n", ["k=new"])
print("edited by hand:", edited); print("override, undefined reference on the dropped line:", overridden)
print("override, malformed reference on the dropped line:", malformed)
sys.exit(0 if edited == overridden == malformed else 1)
