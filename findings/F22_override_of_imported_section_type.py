"""F22: an override addressed to a section of a type contributed by %import is
refused with 'unknown type name', although the hand-edited text loads."""
import io, os, sys, tempfile
import ZConfig
tmp = tempfile.mkdtemp(prefix="zcf22")
sys.path.insert(0, tmp)
d = os.path.join(tmp, "zcf22_gadgets"); os.makedirs(d)
open(os.path.join(d, "__init__.py"), "w").close()
open(os.path.join(d, "component.xml"), "w").write("""<component>
  <sectiontype name="gadget" implements="item">
    <key name="size" datatype="integer" default="7"/>
  </sectiontype>
</component>
""")
schema = ZConfig.loadSchemaFile(io.StringIO("""<schema>
  <abstracttype name="item"/>
  <multisection type="item" name="*" attribute="items"/>
</schema>
"""))
def load(text, overrides=()):
    try:
        conf, _ = ZConfig.loadConfigFile(schema, io.StringIO(text), overrides=overrides)
    except Exception as e:
        return "%s: %s" % (type(e).__name__, e)
    return [(s.getSectionType(), s.getSectionName(), s.size) for s in conf.items]
edited = load("%import zcf22_gadgets\n<gadget b>\n  size 5\n</gadget>\n")
overridden = load("%import zcf22_gadgets\n<gadget b>\n  size 3\n</gadget>\n", ["gadget/size=5"])
byname = load("%import zcf22_gadgets\n<gadget b>\n  size 3\n</gadget>\n", ["b/size=5"])
print("edited by hand:", edited); print("override by type:", overridden); print("override by name:", byname)
sys.exit(0 if edited == overridden == byname else 1)
